import SppModel.Lemmas.Moments
/-!
# C10 — online channel statistics do not depend on how the stream is chunked or merged

Exact statements over ℚ about the recurrences of `update_moments`,
`compute_online_moments` and `add_online_moments` as modelled in
`Model/Moments.lean`.  Float32 rounding is validated by the correspondence run,
not proved.
-/
namespace SppModel.Moments

theorem push_append (s : Mom) (xs ys : List ℚ) : push s (xs ++ ys) = push (push s xs) ys := by
  simp [push, List.foldl_append]

private theorem push_stats (pre xs : List ℚ) (h : pre ≠ []) : push (stats pre) xs = stats (pre ++ xs) := by
  induction xs generalizing pre with
  | nil => simp [push]
  | cons x xs ih =>
    have : push (stats pre) (x :: xs) = push (update (stats pre) x) xs := rfl
    rw [this, update_stats pre x h, ih (pre ++ [x]) (by simp)]
    simp

/-- **The one-pass recurrence equals the two-pass definition**: count, mean and
    the central sums Σ(x-μ)², Σ(x-μ)³, Σ(x-μ)⁴ of the whole stream. -/
theorem push_exact (xs : List ℚ) (h : xs ≠ []) : push Mom.zero xs = stats xs := by
  cases xs with
  | nil => exact absurd rfl h
  | cons x xs =>
    have : push Mom.zero (x :: xs) = push (update Mom.zero x) xs := rfl
    rw [this, update_zero, push_stats [x] xs (by simp)]
    simp

theorem pushChunks_flatten (s : Mom) (chunks : List (List ℚ)) : pushChunks s chunks = push s chunks.flatten := by
  induction chunks generalizing s with
  | nil => simp [pushChunks, push]
  | cons c cs ih =>
    have : pushChunks s (c :: cs) = pushChunks (push s c) cs := rfl
    rw [this, ih, List.flatten_cons, push_append]

/-- **Chunk independence**: every partition of the stream into consecutive
    chunks (empty chunks allowed) gives the two-pass statistics of the stream. -/
theorem chunk_independent (chunks : List (List ℚ)) (h : chunks.flatten ≠ []) :
    pushChunks Mom.zero chunks = stats chunks.flatten := by
  rw [pushChunks_flatten, push_exact _ h]

/-- two partitions of the same stream agree exactly -/
theorem partition_irrelevant (c₁ c₂ : List (List ℚ)) (h : c₁.flatten = c₂.flatten) :
    pushChunks Mom.zero c₁ = pushChunks Mom.zero c₂ := by
  rw [pushChunks_flatten, pushChunks_flatten, h]

/-- **Split and merge**: for every split point with both sides non-empty,
    adding the two accumulators gives the accumulator of the whole stream. -/
theorem split_merge (xs ys : List ℚ) (hx : xs ≠ []) (hy : ys ≠ []) :
    merge (push Mom.zero xs) (push Mom.zero ys) = push Mom.zero (xs ++ ys) := by
  rw [push_exact xs hx, push_exact ys hy, push_exact (xs ++ ys) (by simp [hx]), merge_exact xs ys hx hy]

/-- merging two chunk-fed accumulators, each fed in any partition -/
theorem merge_chunked (c₁ c₂ : List (List ℚ)) (h₁ : c₁.flatten ≠ []) (h₂ : c₂.flatten ≠ []) :
    merge (pushChunks Mom.zero c₁) (pushChunks Mom.zero c₂) = stats (c₁.flatten ++ c₂.flatten) := by
  rw [chunk_independent c₁ h₁, chunk_independent c₂ h₂, merge_exact _ _ h₁ h₂]

/-- basic mode computes the same count, mean and second central sum -/
theorem basic_agrees (s t : Mom) (xs : List ℚ) (h : s.n = t.n ∧ s.m1 = t.m1 ∧ s.m2 = t.m2) :
    (pushBasic s xs).n = (push t xs).n ∧ (pushBasic s xs).m1 = (push t xs).m1
      ∧ (pushBasic s xs).m2 = (push t xs).m2 := by
  induction xs generalizing s t with
  | nil => simpa [pushBasic, push] using h
  | cons x xs ih =>
    have e1 : pushBasic s (x :: xs) = pushBasic (updateBasic s x) xs := rfl
    have e2 : push t (x :: xs) = push (update t x) xs := rfl
    rw [e1, e2]
    apply ih
    obtain ⟨h1, h2, h3⟩ := h
    refine ⟨by simp [updateBasic, update, h1], by simp [updateBasic, update, h1, h2], ?_⟩
    simp only [updateBasic, update, h1, h2, h3]

/-! ### constant channels -/

theorem mean_replicate (n : Nat) (c : ℚ) : mean (List.replicate (n + 1) c) = c := by
  have : ((n : ℚ) + 1) ≠ 0 := by positivity
  simp [mean, List.sum_replicate]; field_simp

theorem S_replicate_self (k n : Nat) (c : ℚ) (hk : 0 < k) : S k (List.replicate n c) c = 0 := by
  simp [S, List.sum_replicate]
  right; exact Nat.ne_of_gt hk

/-- **Constant data**: zero variance, zero skewness, no division by zero
    (the `m2 ≠ 0` guards take the zero branch). -/
theorem constant_channel (n : Nat) (c : ℚ) :
    let s := push Mom.zero (List.replicate (n + 1) c)
    s.m1 = c ∧ s.m2 = 0 ∧ s.m3 = 0 ∧ s.m4 = 0 ∧ var s (n + 1) = 0 ∧ skewSq s (n + 1) = 0 ∧ skewSign s = 0 := by
  have h : push Mom.zero (List.replicate (n + 1) c) = stats (List.replicate (n + 1) c) :=
    push_exact _ (by simp)
  simp only [h, stats, mean_replicate]
  refine ⟨trivial, S_replicate_self 2 _ c (by decide), S_replicate_self 3 _ c (by decide),
    S_replicate_self 4 _ c (by decide), ?_, ?_, ?_⟩
  · simp [var, S_replicate_self 2 _ c (by decide)]
  · simp [skewSq, S_replicate_self 2 _ c (by decide)]
  · simp [skewSign, S_replicate_self 2 _ c (by decide)]

/-- variance is the mean squared deviation when `nsamps` is the number of samples pushed -/
theorem var_is_two_pass (xs : List ℚ) (h : xs ≠ []) :
    var (push Mom.zero xs) xs.length = S 2 xs (mean xs) / xs.length := by
  rw [push_exact xs h]; rfl

/-! ### count / min / max are exact and partition independent -/

theorem count_exact (s : Mom) (xs : List ℚ) : (push s xs).n = s.n + xs.length := by
  induction xs generalizing s with
  | nil => rfl
  | cons x xs ih =>
    have : push s (x :: xs) = push (update s x) xs := rfl
    rw [this, ih]; simp [update]; omega

def foldMM (s : MinMax) (xs : List ℚ) : MinMax := xs.foldl (fun a x => ⟨min a.mn x, max a.mx x⟩) s

theorem foldMM_append (s : MinMax) (xs ys : List ℚ) : foldMM s (xs ++ ys) = foldMM (foldMM s xs) ys := by
  simp [foldMM, List.foldl_append]

private theorem pushChunksMM_pos (i : Nat) (hi : i ≠ 0) (s : MinMax) (cs : List (List ℚ)) :
    pushChunksMM i s cs = foldMM s cs.flatten := by
  induction cs generalizing i s with
  | nil => simp [pushChunksMM, foldMM]
  | cons c cs ih =>
    rw [pushChunksMM, ih (i + 1) (by omega), List.flatten_cons, foldMM_append]
    simp [pushMM, hi, foldMM]

/-- **min/max do not depend on the partition**: with a non-empty first chunk
    the result is the running min/max of the whole stream started at its first sample. -/
theorem minmax_partition (s : MinMax) (x : ℚ) (c : List ℚ) (cs : List (List ℚ)) :
    pushChunksMM 0 s ((x :: c) :: cs) = foldMM ⟨x, x⟩ ((x :: c) ++ cs.flatten) := by
  rw [pushChunksMM, pushChunksMM_pos 1 (by decide), foldMM_append]
  simp [pushMM, foldMM]

theorem foldMM_bounds (s : MinMax) (xs : List ℚ) :
    (foldMM s xs).mn ≤ s.mn ∧ s.mx ≤ (foldMM s xs).mx ∧ ∀ y ∈ xs, (foldMM s xs).mn ≤ y ∧ y ≤ (foldMM s xs).mx := by
  induction xs generalizing s with
  | nil => simp [foldMM]
  | cons x xs ih =>
    have e : foldMM s (x :: xs) = foldMM ⟨min s.mn x, max s.mx x⟩ xs := rfl
    rw [e]
    obtain ⟨h1, h2, h3⟩ := ih ⟨min s.mn x, max s.mx x⟩
    simp only at h1 h2
    refine ⟨le_trans h1 (min_le_left _ _), le_trans (le_max_left _ _) h2, ?_⟩
    intro y hy
    rcases List.mem_cons.mp hy with rfl | hy
    · exact ⟨le_trans h1 (min_le_right _ _), le_trans (le_max_right _ _) h2⟩
    · exact h3 y hy

/-! ### non-vacuity -/
example : push Mom.zero [1, 2, 4] = stats [1, 2, 4] := push_exact _ (by simp)
example : (push Mom.zero [1, 2, 4]).m2 = 14 / 3 := by
  rw [push_exact _ (by simp)]; simp [stats, S, mean]; norm_num
example : merge (push Mom.zero [1]) (push Mom.zero [2, 4, 8, 16]) = push Mom.zero [1, 2, 4, 8, 16] :=
  split_merge _ _ (by simp) (by simp)

end SppModel.Moments

import SppModel.Lemmas.KernelLink
import SppModel.Lemmas.Loop
import SppModel.Generated.LoopKernels
import SppModel.Frozen.LoopKernels
/-!
# Kernel specification — `kernels.downsample_1d_mean` as translated computes its definition (C14)

`Generated/LoopKernels.lean` is re-translated from the source on every run (loop by loop, statement by
statement; arrays are total functions, integers `Nat`, floats exact rationals).  The theorem states, for
every array contents, every size and every output index, what the kernel leaves at that index.  An edit
of an index expression, a loop bound or an operand in the source changes the generated term and breaks
the proof.
-/
namespace SppModel.KernelSpecs
open SppModel SppModel.Loop SppModel.Frozen.LoopKernels SppModel.KernelSpecs.LinkA

/-- the kernel was recognised by the translator on this run -/
theorem downsample_1d_mean_translated : ∀ f ∈ Generated.LoopKernels.translationFailures, f.1 ∉ ["kernels_py_loops", "loop_downsample_1d_mean"] := by decide

/-- `downsample_1d_mean`: `result[i] = (Σ_{k<f} a[i*f + k]) / f` for `i < len / f` -/
theorem downsample_1d_mean_spec (arr : Nat → Rat) (f len i : Nat) :
    downsample_1d_mean arr f len i
      = if i < len / f then rsum f (fun k => arr (i * f + k)) / ((f : Nat) : Rat) else 0 := by
  unfold downsample_1d_mean
  simp only [forRange_acc, zero_add]
  rw [forRange_upd_self]

/-- **link to the C14 model**: `Filters.downsample1d` is the kernel, cell by cell -/
theorem downsample1d_is_kernel (x : List Rat) (f : Nat) :
    Filters.downsample1d x f
      = (List.range (x.length / f)).map (downsample_1d_mean (fun k => x.getD k 0) f x.length) := by
  unfold Filters.downsample1d
  refine List.map_congr_left (fun i hi => ?_)
  rw [downsample_1d_mean_spec, if_pos (List.mem_range.mp hi)]
  rfl

/-- the executable twin run by the correspondence check (`K` requests of the driver) is the same function:
    it only tabulates the loop state after each iteration (`Loop.forRangeM_eq`) -/
theorem downsample_1d_mean_exec_eq (memo : Nat) (arr : Nat → Rat) (f len : Nat) :
    Generated.LoopKernels.downsample_1d_mean_exec memo arr f len = Generated.LoopKernels.downsample_1d_mean arr f len := by
  simp only [Generated.LoopKernels.downsample_1d_mean_exec, Generated.LoopKernels.downsample_1d_mean, Loop.forRangeM_eq]

end SppModel.KernelSpecs

import SppModel.Lemmas.KernelLink
import SppModel.Lemmas.Loop
import SppModel.Generated.LoopKernels
import SppModel.Frozen.LoopKernels
/-!
# Kernel specification — `kernels.remove_zerodm` as translated computes its definition (C07)

`Generated/LoopKernels.lean` is re-translated from the source on every run (loop by loop, statement by
statement; arrays are total functions, integers `Nat`, floats exact rationals).  The theorem states, for
every array contents, every size and every output index, what the kernel leaves at that index.  An edit
of an index expression, a loop bound or an operand in the source changes the generated term and breaks
the proof.
-/
namespace SppModel.KernelSpecs
open SppModel SppModel.Loop SppModel.Frozen.LoopKernels SppModel.KernelSpecs.LinkB

/-- the kernel was recognised by the translator on this run -/
theorem remove_zerodm_translated : ∀ f ∈ Generated.LoopKernels.translationFailures, f.1 ∉ ["kernels_py_loops", "loop_remove_zerodm"] := by decide

/-- `remove_zerodm`: `out[C*t + c] = in[C*t + c] - (Σ_c' in[C*t + c']) * w[c] + bp[c]` -/
theorem remove_zerodm_spec (inp out bp w : Nat → Rat) (C n k : Nat) :
    remove_zerodm inp out bp w C n k
      = if 0 < C ∧ k / C < n then
          inp k - rsum C (fun c => inp (C * (k / C) + c)) * w (k % C) + bp (k % C)
        else out k := by
  unfold remove_zerodm
  induction n with
  | zero => simp
  | succ n ih =>
    simp only [forRange_succ] at ih ⊢
    rw [forRange_acc, forRange_store]
    by_cases hb : C * n ≤ k ∧ k < C * n + C
    · rw [if_pos hb]
      obtain ⟨hC, hq⟩ := (block_iff C n k).1 hb
      have hm := Nat.div_add_mod k C
      have hr := Nat.mod_lt k hC
      rw [hq] at hm ⊢
      rw [if_pos ⟨hC, Nat.lt_succ_self n⟩]
      have e1 : k - C * n = k % C := by omega
      have e2 : C * n + k % C = k := hm
      rw [e1, e2, Nat.cast_zero, zero_add]
    · rw [if_neg hb, ih]
      have hne : ¬ (0 < C ∧ k / C = n) := fun h => hb ((block_iff C n k).2 h)
      by_cases h2 : 0 < C ∧ k / C < n
      · have : 0 < C ∧ k / C < n + 1 := ⟨h2.1, by omega⟩
        rw [if_pos h2, if_pos this]
      · have : ¬ (0 < C ∧ k / C < n + 1) := by omega
        rw [if_neg h2, if_neg this]

/-- **link to the C07 model** (`Transform.zerodmRow`), with `chanwts = bpass / bpass.sum` as built by
    `Filterbank.remove_zerodm` -/
theorem zerodm_block_link (flat : List Int) (C : Nat) (b : Plan.Blk) (bpass : List Rat) (out : Nat → Rat)
    (t c : Nat) (ht : t < b.len) (hc : c < C) :
    remove_zerodm (blockData flat C b) out (fun c => bpass.getD c 0) (fun c => bpass.getD c 0 / bpass.sum) C b.len (C * t + c)
      = (Transform.zerodmRow bpass (Transform.row flat C (b.off + t))).getD c 0 := by
  have hC : 0 < C := by omega
  rw [remove_zerodm_spec, cell_div C t c hc, cell_mod C t c hc, if_pos ⟨hC, ht⟩, blockData_cell]
  unfold Transform.zerodmRow
  simp only [row_length]
  rw [getD_map_range C _ c 0 hc, row_getD _ _ _ _ hc, row_cast_sum,
    rsum_congr C _ _ (fun c' _ => blockData_cell flat C b t c')]

/-- the executable twin run by the correspondence check (`K` requests of the driver) is the same function:
    it only tabulates the loop state after each iteration (`Loop.forRangeM_eq`) -/
theorem remove_zerodm_exec_eq (memo : Nat) (inp out bp w : Nat → Rat) (C n : Nat) :
    Generated.LoopKernels.remove_zerodm_exec memo inp out bp w C n = Generated.LoopKernels.remove_zerodm inp out bp w C n := by
  simp only [Generated.LoopKernels.remove_zerodm_exec, Generated.LoopKernels.remove_zerodm, Loop.forRangeM_eq]

end SppModel.KernelSpecs

import SppModel.Generated.ReaderArith
import SppModel.Frozen.ReaderArith
import SppModel.Lemmas.KernelLink
import SppModel.Lemmas.Loop
import SppModel.Generated.LoopKernels
import SppModel.Frozen.LoopKernels
/-!
# Kernel specification — `kernels.dedisperse` as translated computes its definition (C06, C09)

`Generated/LoopKernels.lean` is re-translated from the source on every run (loop by loop, statement by
statement; arrays are total functions, integers `Nat`, floats exact rationals).  The theorem states, for
every array contents, every size and every output index, what the kernel leaves at that index.  An edit
of an index expression, a loop bound or an operand in the source changes the generated term and breaks
the proof.
-/
namespace SppModel.KernelSpecs
open SppModel SppModel.Loop SppModel.Frozen.LoopKernels SppModel.KernelSpecs.LinkA

/-- the kernel was recognised by the translator on this run -/
theorem dedisperse_translated : ∀ f ∈ Generated.LoopKernels.translationFailures, f.1 ∉ ["kernels_py_loops", "loop_dedisperse"] := by decide

private theorem dedisperse_aux (inp out : Nat → Rat) (dl : Nat → Nat) (C m idx j : Nat) :
    forRange m out (fun isamp a => forRange C a (fun ichan a =>
        upd a (idx + isamp) (a (idx + isamp) + inp (C * (isamp + dl ichan) + ichan)))) j
      = if idx ≤ j ∧ j < idx + m then out j + rsum C (fun c => inp (C * ((j - idx) + dl c) + c)) else out j := by
  induction m with
  | zero =>
    simp
  | succ m ih =>
    rw [forRange_succ]
    rw [forRange_acc_cell C _ (idx + m) (fun c => inp (C * (m + dl c) + c)) j]
    by_cases h : j = idx + m
    · subst h
      have h1 : ¬ (idx ≤ idx + m ∧ idx + m < idx + m) := by omega
      have h2 : idx ≤ idx + m ∧ idx + m < idx + (m + 1) := by omega
      have h3 : idx + m - idx = m := by omega
      rw [if_pos rfl, ih, if_neg h1, if_pos h2, h3]
    · rw [if_neg h, ih]
      by_cases h2 : idx ≤ j ∧ j < idx + m
      · have : idx ≤ j ∧ j < idx + (m + 1) := by omega
        rw [if_pos h2, if_pos this]
      · have : ¬ (idx ≤ j ∧ j < idx + (m + 1)) := by omega
        rw [if_neg h2, if_neg this]

/-- `dedisperse`: `out[index + t] += Σ_c in[C*(t + delay_c) + c]` for `t < n - maxdelay` -/
theorem dedisperse_spec (inp out : Nat → Rat) (dl : Nat → Nat) (md C n idx j : Nat) :
    dedisperse inp out dl md C n idx j
      = if idx ≤ j ∧ j < idx + (n - md) then out j + rsum C (fun c => inp (C * ((j - idx) + dl c) + c)) else out j := by
  unfold dedisperse
  exact dedisperse_aux inp out dl C (n - md) idx j

/-- **link to the C06/C09 model** (`Reduce.dedispWrites`): at the model's index the kernel adds the model's value -/
theorem dedisperse_block_link (flat : List Int) (C : Nat) (delays : List Nat) (md G : Nat) (b : Plan.Blk)
    (out : Nat → Rat) (t : Nat) (ht : t < b.len - md) :
    dedisperse (blockData flat C b) out (fun c => delays.getD c 0) md C b.len
        (Frozen.ReaderArith.dedisperse_index G b.ii md) (b.ii * (G - md) + t)
      = out (b.ii * (G - md) + t) + ((Reduce.dedispSum flat C delays (b.off + t) : Int) : Rat) := by
  rw [dedisperse_spec]
  unfold Frozen.ReaderArith.dedisperse_index
  have h : b.ii * (G - md) ≤ b.ii * (G - md) + t ∧ b.ii * (G - md) + t < b.ii * (G - md) + (b.len - md) := by
    omega
  rw [if_pos h, Nat.add_sub_cancel_left]
  unfold Reduce.dedispSum
  rw [cast_range_sum]
  congr 1
  refine rsum_congr C _ _ (fun c _ => ?_)
  rw [blockData_getS, Nat.add_assoc]

/-- the executable twin run by the correspondence check (`K` requests of the driver) is the same function:
    it only tabulates the loop state after each iteration (`Loop.forRangeM_eq`) -/
theorem dedisperse_exec_eq (memo : Nat) (inp out : Nat → Rat) (dl : Nat → Nat) (md C n idx : Nat) :
    Generated.LoopKernels.dedisperse_exec memo inp out dl md C n idx = Generated.LoopKernels.dedisperse inp out dl md C n idx := by
  simp only [Generated.LoopKernels.dedisperse_exec, Generated.LoopKernels.dedisperse, Loop.forRangeM_eq]

end SppModel.KernelSpecs

import SppModel.Lemmas.KernelLink
import SppModel.Lemmas.Loop
import SppModel.Generated.LoopKernels
import SppModel.Frozen.LoopKernels
/-!
# Kernel specification — `kernels.mask_channels` as translated computes its definition (C07, C16)

`Generated/LoopKernels.lean` is re-translated from the source on every run (loop by loop, statement by
statement; arrays are total functions, integers `Nat`, floats exact rationals).  The theorem states, for
every array contents, every size and every output index, what the kernel leaves at that index.  An edit
of an index expression, a loop bound or an operand in the source changes the generated term and breaks
the proof.
-/
namespace SppModel.KernelSpecs
open SppModel SppModel.Loop SppModel.Frozen.LoopKernels SppModel.KernelSpecs.LinkB

/-- the kernel was recognised by the translator on this run -/
theorem mask_channels_translated : ∀ f ∈ Generated.LoopKernels.translationFailures, f.1 ∉ ["kernels_py_loops", "loop_mask_channels"] := by decide

/-- `mask_channels`: cell `C*t + c` (`c < C`, `t < n`) becomes `maskvalue` iff `mask[c]`; nothing else changes -/
private theorem mask_channels_inner (a : Nat → Rat) (v : Rat) (C n c k : Nat) (hc : c < C) :
    forRange n a (fun isamp a => upd a (C * isamp + c) v) k
      = if k / C < n ∧ k % C = c then v else a k := by
  induction n with
  | zero => simp
  | succ n ih =>
    rw [forRange_succ, upd_apply, ih]
    by_cases h : k = C * n + c
    · subst h
      have h1 : (C * n + c) / C = n := by
        rw [Nat.mul_add_div (by omega), Nat.div_eq_of_lt hc]; rfl
      have h2 : (C * n + c) % C = c := by
        rw [Nat.mul_add_mod, Nat.mod_eq_of_lt hc]
      simp [h1, h2]
    · rw [if_neg h]
      by_cases h2 : k / C < n ∧ k % C = c
      · have : k / C < n + 1 ∧ k % C = c := by omega
        simp [h2, this]
      · have : ¬ (k / C < n + 1 ∧ k % C = c) := by
          rintro ⟨h3, h4⟩
          have h5 : k / C = n := by omega
          have := Nat.div_add_mod k C
          rw [h5, h4] at this
          omega
        simp [h2, this]

private theorem mask_channels_aux (arr : Nat → Rat) (mask : Nat → Bool) (v : Rat) (C n m k : Nat)
    (hm : m ≤ C) :
    forRange m arr (fun ichan a =>
        if (mask ichan) = true then
          forRange n a (fun isamp a => upd a (C * isamp + ichan) v)
        else a) k
      = if k / C < n ∧ k % C < m ∧ mask (k % C) = true then v else arr k := by
  induction m with
  | zero => simp
  | succ m ih =>
    have ih := ih (by omega)
    rw [forRange_succ]
    by_cases hmask : mask m = true
    · rw [if_pos hmask, mask_channels_inner _ v C n m k (by omega), ih]
      by_cases h : k / C < n ∧ k % C = m
      · have : k / C < n ∧ k % C < m + 1 ∧ mask (k % C) = true := by
          obtain ⟨h1, h2⟩ := h
          refine ⟨h1, by omega, ?_⟩
          rw [h2]; exact hmask
        rw [if_pos h, if_pos this]
      · rw [if_neg h]
        by_cases h2 : k / C < n ∧ k % C < m ∧ mask (k % C) = true
        · have : k / C < n ∧ k % C < m + 1 ∧ mask (k % C) = true := ⟨h2.1, by omega, h2.2.2⟩
          rw [if_pos h2, if_pos this]
        · have : ¬ (k / C < n ∧ k % C < m + 1 ∧ mask (k % C) = true) := by
            rintro ⟨h3, h4, h5⟩
            by_cases h6 : k % C = m
            · exact h ⟨h3, h6⟩
            · exact h2 ⟨h3, by omega, h5⟩
          rw [if_neg h2, if_neg this]
    · rw [if_neg hmask, ih]
      by_cases h2 : k / C < n ∧ k % C < m ∧ mask (k % C) = true
      · have : k / C < n ∧ k % C < m + 1 ∧ mask (k % C) = true := ⟨h2.1, by omega, h2.2.2⟩
        rw [if_pos h2, if_pos this]
      · have : ¬ (k / C < n ∧ k % C < m + 1 ∧ mask (k % C) = true) := by
          rintro ⟨h3, h4, h5⟩
          by_cases h6 : k % C = m
          · rw [h6] at h5; exact hmask h5
          · exact h2 ⟨h3, by omega, h5⟩
        rw [if_neg h2, if_neg this]

theorem mask_channels_spec (arr : Nat → Rat) (mask : Nat → Bool) (v : Rat) (C n k : Nat) :
    mask_channels arr mask v C n k = if 0 < C ∧ k / C < n ∧ mask (k % C) = true then v else arr k := by
  unfold mask_channels
  have h := mask_channels_aux arr mask v C n C k (Nat.le_refl C)
  refine h.trans ?_
  by_cases hC : 0 < C
  · have hlt : k % C < C := Nat.mod_lt k hC
    by_cases h2 : k / C < n ∧ mask (k % C) = true
    · rw [if_pos ⟨h2.1, hlt, h2.2⟩, if_pos ⟨hC, h2.1, h2.2⟩]
    · rw [if_neg (fun h3 => h2 ⟨h3.1, h3.2.2⟩), if_neg (fun h3 => h2 ⟨h3.2.1, h3.2.2⟩)]
  · have hC0 : C = 0 := by omega
    subst hC0
    rw [if_neg (fun h3 => by have := h3.2.1; omega), if_neg (fun h3 => hC h3.1)]

/-- **link to the C07/C16 model** (`Transform.maskRow`) -/
theorem mask_block_link (flat : List Int) (C : Nat) (b : Plan.Blk) (mask : List Bool) (v : Int) (t c : Nat)
    (ht : t < b.len) (hc : c < C) :
    mask_channels (blockData flat C b) (fun c => mask.getD c false) (v : Rat) C b.len (C * t + c)
      = (((Transform.maskRow mask v (Transform.row flat C (b.off + t))).getD c 0 : Int) : Rat) := by
  have hC : 0 < C := by omega
  rw [mask_channels_spec, cell_div C t c hc, cell_mod C t c hc, blockData_cell]
  unfold Transform.maskRow
  rw [row_length, getD_map_range C _ c 0 hc, row_getD _ _ _ _ hc]
  by_cases hm : mask.getD c false = true
  · rw [if_pos ⟨hC, ht, hm⟩, if_pos hm]
  · rw [if_neg (fun h => hm h.2.2), if_neg hm]

/-- the executable twin run by the correspondence check (`K` requests of the driver) is the same function:
    it only tabulates the loop state after each iteration (`Loop.forRangeM_eq`) -/
theorem mask_channels_exec_eq (memo : Nat) (arr : Nat → Rat) (mask : Nat → Bool) (v : Rat) (C n : Nat) :
    Generated.LoopKernels.mask_channels_exec memo arr mask v C n = Generated.LoopKernels.mask_channels arr mask v C n := by
  simp only [Generated.LoopKernels.mask_channels_exec, Generated.LoopKernels.mask_channels, Loop.forRangeM_eq]

end SppModel.KernelSpecs

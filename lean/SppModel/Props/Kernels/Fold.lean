import SppModel.Generated.ReaderArith
import SppModel.Frozen.ReaderArith
import SppModel.Lemmas.KernelLink
import SppModel.Lemmas.Loop
import SppModel.Lemmas.Fold
import SppModel.Lemmas.FoldKernel
import SppModel.Generated.LoopKernels
import SppModel.Frozen.LoopKernels
import SppModel.Model.Fold
/-!
# Kernel specification — `kernels.fold` as translated computes the documented assignment (C11)

`Generated/LoopKernels.lean` is re-translated from the source on every run.  For `fold` the translation
includes the phase formula itself (floats as exact rationals, `int()` as truncation, float `//` as the
floor of the exact quotient), so the theorems below tie the *source's* phase bin / sub-integration /
sub-band arithmetic to the documented formula and to the tables the C11 model (`Model/Fold.lean`) is
parameterised by:

* `fold_spec` — what the kernel leaves in every cell of `fold_ar` and `count_ar`: every `(sample, channel)`
  pair contributes its value to exactly the cell `srcCell` computes, and to no other;
* `srcSubint_nat`, `srcSubband_nat` — the float floor divisions are the integer divisions
  `g*nints / total` and `c*nsubs / nchans` (sub-integration by time order, sub-band by channel order);
* `srcPhaseBin_lt`, `srcSubint_lt`, `srcSubband_lt`, `srcCell_lt` — every cell index is inside the cube
  (this discharges the hypothesis `hcell` of `fold_partition` from the source, for every size);
* `srcPhaseBin_documented` — for zero acceleration and a period of `m` samples the source's bin is the
  documented `int(nbins*t/m + 0.5) mod nbins` (`Fold.phaseBinQ`);
* `fold_cell_link` — the C11 model's `Fold.cell` over the tables of these functions is `srcCell`;
* `fold_counts_total` — from a zeroed `count_ar` the hit counts sum to the number of samples folded.
-/
namespace SppModel.KernelSpecs
open SppModel SppModel.Loop SppModel.Frozen.LoopKernels

/-- the kernel was recognised by the translator on this run -/
theorem fold_translated : ∀ f ∈ Generated.LoopKernels.translationFailures, f.1 ∉ ["kernels_py_loops", "loop_fold"] := by decide

/-- phase bin of global sample number `g = isamp + index`, as the source computes it -/
def srcPhaseBin (tsamp period accel : Rat) (total nbins g : Nat) : Nat :=
  let tj : Rat := ((g : Nat) : Rat) * tsamp
  let tobs : Rat := ((total : Nat) : Rat) * tsamp
  (Loop.pyInt (((((nbins : Nat) : Rat) * tj) * (((1 : Nat) : Rat) + ((accel * (tj - tobs)) / (((2 : Nat) : Rat) * (299792458 : Rat))))) / period
      + ((1 : Rat) / (2 : Rat)))).natAbs % nbins

/-- `subint = (isamp + index) // (total_nsamps / nints)` (a float in the source) -/
def srcSubint (total nints g : Nat) : Rat :=
  Loop.floorDivQ ((g : Nat) : Rat) (((total : Nat) : Rat) / ((nints : Nat) : Rat))

/-- `sub_band = ichan // (nchans / nsubs)` (a float in the source) -/
def srcSubband (nchans nsubs c : Nat) : Rat :=
  Loop.floorDivQ ((c : Nat) : Rat) (((nchans : Nat) : Rat) / ((nsubs : Nat) : Rat))

/-- `pos2 = int(subint*nbins*nsubs + phasebin + sub_band*nbins)` -/
def srcCell (tsamp period accel : Rat) (total nchans nbins nints nsubs g c : Nat) : Nat :=
  (Loop.pyInt ((((srcSubint total nints g * ((nbins : Nat) : Rat)) * ((nsubs : Nat) : Rat))
      + ((srcPhaseBin tsamp period accel total nbins g : Nat) : Rat))
      + (srcSubband nchans nsubs c * ((nbins : Nat) : Rat)))).toNat

/-- the generated term, with the source's cell arithmetic named: a double loop over the pair of arrays -/
private theorem fold_loops (inp fa ca : Nat → Rat) (dl : Nat → Nat) (md : Nat) (tsamp period accel : Rat)
    (total n C nbins nints nsubs idx : Nat) :
    fold inp fa ca dl md tsamp period accel total n C nbins nints nsubs idx
      = forRange (n - md) (fa, ca) (fun t st => forRange C st (fun c st =>
          (upd st.1 (srcCell tsamp period accel total C nbins nints nsubs (t + idx) c)
             (st.1 (srcCell tsamp period accel total C nbins nints nsubs (t + idx) c) + inp (C * (t + dl c) + c)),
           upd st.2 (srcCell tsamp period accel total C nbins nints nsubs (t + idx) c)
             (st.2 (srcCell tsamp period accel total C nbins nints nsubs (t + idx) c) + ((1 : Nat) : Rat))))) := rfl

/-- **`fold`, every cell**: each `(t, c)` with `t < n - maxdelay`, `c < C` adds `in[C*(t + delay_c) + c]` to
    `fold_ar[srcCell (t + index) c]` and `1` to `count_ar` at the same cell; nothing else is touched -/
theorem fold_spec (inp fa ca : Nat → Rat) (dl : Nat → Nat) (md : Nat) (tsamp period accel : Rat)
    (total n C nbins nints nsubs idx j : Nat) :
    (fold inp fa ca dl md tsamp period accel total n C nbins nints nsubs idx).1 j
      = fa j + rsum (n - md) (fun t => rsum C (fun c =>
          if srcCell tsamp period accel total C nbins nints nsubs (t + idx) c = j then inp (C * (t + dl c) + c) else 0))
    ∧ (fold inp fa ca dl md tsamp period accel total n C nbins nints nsubs idx).2 j
      = ca j + rsum (n - md) (fun t => rsum C (fun c =>
          if srcCell tsamp period accel total C nbins nints nsubs (t + idx) c = j then 1 else 0)) := by
  rw [fold_loops, forRange_scatter_pair2]
  refine ⟨forRange_scatter_add2 _ _ _ _ _ _, ?_⟩
  refine (forRange_scatter_add2 _ _ _ _ (fun _ _ => ((1 : Nat) : Rat)) _).trans ?_
  rw [Nat.cast_one]

/-- `a*k / b < k` for `a < b` -/
private theorem natDiv_lt_of_lt (a b k : Nat) (hk : 0 < k) (h : a < b) : a * k / b < k := by
  have hb : 0 < b := by omega
  rw [Nat.div_lt_iff_lt_mul hb]
  exact Nat.mul_lt_mul_of_lt_of_le h (Nat.le_refl k) hk |>.trans_eq (Nat.mul_comm b k)

/-- sub-integration by time order: the float floor division is `g*nints / total` -/
theorem srcSubint_nat (total nints g : Nat) (ht : 0 < total) (hn : 0 < nints) :
    srcSubint total nints g = (((g * nints / total : Nat) : Nat) : Rat) := by
  exact floorDivQ_nat g total nints ht hn

/-- sub-band by channel order: the float floor division is `c*nsubs / nchans` -/
theorem srcSubband_nat (nchans nsubs c : Nat) (hc : 0 < nchans) (hs : 0 < nsubs) :
    srcSubband nchans nsubs c = (((c * nsubs / nchans : Nat) : Nat) : Rat) := by
  exact floorDivQ_nat c nchans nsubs hc hs

theorem srcPhaseBin_lt (tsamp period accel : Rat) (total nbins g : Nat) (hb : 0 < nbins) :
    srcPhaseBin tsamp period accel total nbins g < nbins := by
  exact Nat.mod_lt _ hb

theorem srcSubint_lt (total nints g : Nat) (hn : 0 < nints) (hg : g < total) :
    g * nints / total < nints := by
  exact natDiv_lt_of_lt g total nints hn hg

theorem srcSubband_lt (nchans nsubs c : Nat) (hs : 0 < nsubs) (hc : c < nchans) :
    c * nsubs / nchans < nsubs := by
  exact natDiv_lt_of_lt c nchans nsubs hs hc

/-- the cell index in natural-number form -/
theorem srcCell_nat (tsamp period accel : Rat) (total nchans nbins nints nsubs g c : Nat)
    (ht : 0 < total) (hn : 0 < nints) (hc : 0 < nchans) (hs : 0 < nsubs) :
    srcCell tsamp period accel total nchans nbins nints nsubs g c
      = (g * nints / total) * nbins * nsubs + srcPhaseBin tsamp period accel total nbins g + (c * nsubs / nchans) * nbins := by
  unfold srcCell
  rw [srcSubint_nat total nints g ht hn, srcSubband_nat nchans nsubs c hc hs]
  have e : ((((g * nints / total : Nat) : Rat) * ((nbins : Nat) : Rat)) * ((nsubs : Nat) : Rat)
        + ((srcPhaseBin tsamp period accel total nbins g : Nat) : Rat))
        + (((c * nsubs / nchans : Nat) : Rat) * ((nbins : Nat) : Rat))
      = (((g * nints / total) * nbins * nsubs + srcPhaseBin tsamp period accel total nbins g
          + (c * nsubs / nchans) * nbins : Nat) : Rat) := by
    push_cast; ring
  rw [e, pyInt_natCast, Int.toNat_natCast]

/-- every sample of the observation and every channel lands inside the `nints × nsubs × nbins` cube -/
theorem srcCell_lt (tsamp period accel : Rat) (total nchans nbins nints nsubs g c : Nat)
    (hb : 0 < nbins) (hn : 0 < nints) (hs : 0 < nsubs) (hg : g < total) (hc : c < nchans) :
    srcCell tsamp period accel total nchans nbins nints nsubs g c < nbins * nints * nsubs := by
  have ht : 0 < total := by omega
  have hc0 : 0 < nchans := by omega
  rw [srcCell_nat tsamp period accel total nchans nbins nints nsubs g c ht hn hc0 hs]
  have h1 := srcSubint_lt total nints g hn hg
  have h2 := srcSubband_lt nchans nsubs c hs hc
  have h3 := srcPhaseBin_lt tsamp period accel total nbins g hb
  generalize g * nints / total = a at h1 ⊢
  generalize c * nsubs / nchans = b at h2 ⊢
  generalize srcPhaseBin tsamp period accel total nbins g = q at h3 ⊢
  have k1 : (b + 1) * nbins ≤ nsubs * nbins := Nat.mul_le_mul_right _ h2
  have k2 : (a + 1) * (nbins * nsubs) ≤ nints * (nbins * nsubs) := Nat.mul_le_mul_right _ h1
  nlinarith [k1, k2, h3]

/-- zero acceleration, period of `m` samples: the source's phase bin is the documented
    `int(nbins*t/m + 0.5) mod nbins` -/
theorem srcPhaseBin_documented (tsamp : Rat) (total nbins g m : Nat) (hts : 0 < tsamp) (hm : 0 < m) :
    srcPhaseBin tsamp (((m : Nat) : Rat) * tsamp) 0 total nbins g = Fold.phaseBinQ nbins g m := by
  unfold srcPhaseBin Fold.phaseBinQ
  have hts' : tsamp ≠ 0 := ne_of_gt hts
  have hm' : ((m : Nat) : Rat) ≠ 0 := by exact_mod_cast hm.ne'
  have e : ((((nbins : Nat) : Rat) * (((g : Nat) : Rat) * tsamp))
        * (((1 : Nat) : Rat) + (((0 : Rat) * ((((g : Nat) : Rat) * tsamp) - (((total : Nat) : Rat) * tsamp)))
            / (((2 : Nat) : Rat) * (299792458 : Rat))))) / (((m : Nat) : Rat) * tsamp)
        + ((1 : Rat) / (2 : Rat))
      = ((nbins * g : Nat) : Rat) / (m : Rat) + 1 / 2 := by
    push_cast; field_simp; ring
  have hnn : (0 : Rat) ≤ ((nbins * g : Nat) : Rat) / (m : Rat) + 1 / 2 := by
    have : (0 : Rat) ≤ ((nbins * g : Nat) : Rat) / (m : Rat) :=
      div_nonneg (by exact_mod_cast Nat.zero_le _) (by exact_mod_cast Nat.zero_le _)
    linarith
  have hf : 0 ≤ (((nbins * g : Nat) : Rat) / (m : Rat) + 1 / 2).floor := Rat.le_floor_iff.mpr (by exact_mod_cast hnn)
  dsimp only
  rw [e, pyInt_of_nonneg _ hnn]
  obtain ⟨k, hk⟩ := Int.eq_ofNat_of_zero_le hf
  rw [hk, Int.natAbs_natCast, ← Int.natCast_mod, Int.toNat_natCast]

/-- **link to the C11 model**: `Fold.cell` over the tables of the source's own functions is the source's cell -/
theorem fold_cell_link (tsamp period accel : Rat) (total C nbins nints nsubs nf g c : Nat)
    (ht : 0 < total) (hn : 0 < nints) (hC : 0 < C) (hs : 0 < nsubs) (hg : g < nf) (hc : c < C) :
    Fold.cell nbins nsubs
        ((List.range nf).map (srcPhaseBin tsamp period accel total nbins))
        ((List.range nf).map (fun g => g * nints / total))
        ((List.range C).map (fun c => c * nsubs / C)) g c
      = srcCell tsamp period accel total C nbins nints nsubs g c := by
  unfold Fold.cell
  rw [LinkC.getD_map_range _ _ _ _ hg, LinkC.getD_map_range _ _ _ _ hg, LinkC.getD_map_range _ _ _ _ hc,
    srcCell_nat tsamp period accel total C nbins nints nsubs g c ht hn hC hs]

/-- hit counts sum to the number of samples folded: from a zeroed count array, over the whole cube -/
theorem fold_counts_total (inp fa : Nat → Rat) (dl : Nat → Nat) (md : Nat) (tsamp period accel : Rat)
    (total n C nbins nints nsubs idx : Nat)
    (hb : 0 < nbins) (hn : 0 < nints) (hs : 0 < nsubs) (hin : idx + (n - md) ≤ total) :
    rsum (nbins * nints * nsubs)
        (fun j => (fold inp fa (fun _ => 0) dl md tsamp period accel total n C nbins nints nsubs idx).2 j)
      = (((n - md) * C : Nat) : Rat) := by
  have hsp : ∀ j, (fold inp fa (fun _ => 0) dl md tsamp period accel total n C nbins nints nsubs idx).2 j
      = rsum (n - md) (fun t => rsum C (fun c =>
          if srcCell tsamp period accel total C nbins nints nsubs (t + idx) c = j then 1 else 0)) := by
    intro j
    rw [(fold_spec inp fa (fun _ => 0) dl md tsamp period accel total n C nbins nints nsubs idx j).2, zero_add]
  rw [rsum_congr _ _ _ (fun j _ => hsp j), rsum_comm]
  have hrow : ∀ t < n - md, rsum (nbins * nints * nsubs) (fun j => rsum C (fun c =>
          if srcCell tsamp period accel total C nbins nints nsubs (t + idx) c = j then (1 : Rat) else 0))
      = (C : Rat) := by
    intro t ht
    rw [rsum_comm]
    have hc1 : ∀ c < C, rsum (nbins * nints * nsubs) (fun j =>
          if srcCell tsamp period accel total C nbins nints nsubs (t + idx) c = j then (1 : Rat) else 0) = 1 := by
      intro c hc
      rw [rsum_indicator, if_pos (srcCell_lt tsamp period accel total C nbins nints nsubs (t + idx) c
        hb hn hs (by omega) hc)]
    rw [rsum_congr _ _ _ hc1, rsum_const, mul_one]
  rw [rsum_congr _ _ _ hrow, rsum_const]
  push_cast; ring

/-- the executable twin run by the correspondence check is the same function -/
theorem fold_exec_eq (memo : Nat) (inp fa ca : Nat → Rat) (dl : Nat → Nat) (md : Nat) (tsamp period accel : Rat)
    (total n C nbins nints nsubs idx : Nat) :
    Generated.LoopKernels.fold_exec memo inp fa ca dl md tsamp period accel total n C nbins nints nsubs idx
      = Generated.LoopKernels.fold inp fa ca dl md tsamp period accel total n C nbins nints nsubs idx := by
  simp only [Generated.LoopKernels.fold_exec, Generated.LoopKernels.fold, Loop.forRangeM_eq]

/-- non-vacuity: 2 channels, 4 samples of period 2 samples, 2 bins, 1 sub-integration, 1 sub-band -/
example : (fold (fun k => (k : Rat)) (fun _ => 0) (fun _ => 0) (fun _ => 0) 0 1 2 0 4 4 2 2 1 1 0).2 0 = 4 := by
  decide +kernel

end SppModel.KernelSpecs

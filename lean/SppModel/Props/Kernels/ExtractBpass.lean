import SppModel.Lemmas.KernelLink
import SppModel.Lemmas.Loop
import SppModel.Generated.LoopKernels
import SppModel.Frozen.LoopKernels
/-!
# Kernel specification — `kernels.extract_bpass` as translated computes its definition (C06)

`Generated/LoopKernels.lean` is re-translated from the source on every run (loop by loop, statement by
statement; arrays are total functions, integers `Nat`, floats exact rationals).  The theorem states, for
every array contents, every size and every output index, what the kernel leaves at that index.  An edit
of an index expression, a loop bound or an operand in the source changes the generated term and breaks
the proof.
-/
namespace SppModel.KernelSpecs
open SppModel SppModel.Loop SppModel.Frozen.LoopKernels SppModel.KernelSpecs.LinkA

/-- the kernel was recognised by the translator on this run -/
theorem extract_bpass_translated : ∀ f ∈ Generated.LoopKernels.translationFailures, f.1 ∉ ["kernels_py_loops", "loop_extract_bpass"] := by decide

/-- `extract_bpass`: `out[c] += Σ_t in[C*t + c]` for `c < C` -/
private theorem extract_bpass_aux (inp out : Nat → Rat) (C n m c : Nat) :
    forRange m out (fun ichan a => forRange n a (fun isamp a =>
        upd a ichan (a ichan + inp (C * isamp + ichan)))) c
      = if c < m then out c + rsum n (fun t => inp (C * t + c)) else out c := by
  induction m with
  | zero => simp
  | succ m ih =>
    rw [forRange_succ]
    rw [forRange_acc_cell n _ m (fun t => inp (C * t + m)) c]
    by_cases h : c = m
    · subst h
      rw [if_pos rfl, ih]
      simp
    · rw [if_neg h, ih]
      by_cases h2 : c < m
      · have : c < m + 1 := by omega
        simp [h2, this]
      · have : ¬ c < m + 1 := by omega
        simp [h2, this]

theorem extract_bpass_spec (inp out : Nat → Rat) (C n c : Nat) :
    extract_bpass inp out C n c = if c < C then out c + rsum n (fun t => inp (C * t + c)) else out c := by
  unfold extract_bpass
  exact extract_bpass_aux inp out C n C c

/-- **link to the C06 model** (`Reduce.bandpass`): the block's contribution to channel `c` -/
theorem bandpass_block_link (flat : List Int) (C : Nat) (b : Plan.Blk) (out : Nat → Rat) (c : Nat) (hc : c < C) :
    extract_bpass (blockData flat C b) out C b.len c
      = out c + ((((List.range b.len).map (fun t => Reduce.getS flat C (b.off + t) c)).sum : Int) : Rat) := by
  rw [extract_bpass_spec, if_pos hc, cast_range_sum]
  congr 1
  exact rsum_congr b.len _ _ (fun t _ => blockData_getS flat C b t c)

/-- the executable twin run by the correspondence check (`K` requests of the driver) is the same function:
    it only tabulates the loop state after each iteration (`Loop.forRangeM_eq`) -/
theorem extract_bpass_exec_eq (memo : Nat) (inp out : Nat → Rat) (C n : Nat) :
    Generated.LoopKernels.extract_bpass_exec memo inp out C n = Generated.LoopKernels.extract_bpass inp out C n := by
  simp only [Generated.LoopKernels.extract_bpass_exec, Generated.LoopKernels.extract_bpass, Loop.forRangeM_eq]

end SppModel.KernelSpecs

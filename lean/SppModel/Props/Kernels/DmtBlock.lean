import SppModel.Props.Kernels.RollBlock
/-!
# Kernel link — `kernels.dmt_block`, `dmt_block_valid` as translated are the C09 model's DM-time transform

`Model/Dedisp.lean` (`dmtBlock`, `dmtBlockValid`) is the hand model the C09 theorems (`dmtTransform_row`, …)
are about; these theorems say that on a rectangular block and a rectangular shift table the generated
kernels compute the same cells and reject exactly the same requests.
-/
namespace SppModel.KernelSpecs
open SppModel SppModel.Loop SppModel.Frozen.BlockKernels

/-! ## helpers -/

/-- the `Int → Rat` cast goes through a list sum -/
private theorem cast_list_sum' (l : List Int) : ((l.sum : Int) : Rat) = (l.map (fun (x : Int) => (x : Rat))).sum := by
  induction l with
  | nil => simp
  | cons a l ih => simp only [List.sum_cons, List.map_cons]; push_cast; rw [ih]

/-- cast of an integer sum over `range n` as an `rsum` -/
private theorem cast_range_sum' (n : Nat) (f : Nat → Int) :
    ((((List.range n).map f).sum : Int) : Rat) = rsum n (fun k => ((f k : Int) : Rat)) := by
  rw [cast_list_sum', List.map_map]; rfl

private theorem getD_map_lt {α β} (f : α → β) (l : List α) (i : Nat) (a : α) (b : β) (hi : i < l.length) :
    (l.map f).getD i b = f (l.getD i a) := by
  simp [List.getD_eq_getElem?_getD, hi]

/-- a cell of `colSums` is the sum over rows of that column -/
private theorem colSums_getD (rows : List (List Int)) (n k : Nat) (hk : k < n) :
    (Dedisp.colSums rows n).getD k 0 = (rows.map (fun r => r.getD k 0)).sum := by
  unfold Dedisp.colSums
  exact Dedisp.getD_map_range' _ n k 0 hk

/-- a cell of `colSums` of rows built over `range m`, cast to `Rat`, as an `rsum` -/
private theorem colSums_range_cast (m : Nat) (f : Nat → List Int) (n k : Nat) (hk : k < n) :
    ((((Dedisp.colSums ((List.range m).map f) n).getD k 0 : Int)) : Rat)
      = rsum m (fun r => ((((f r).getD k 0 : Int)) : Rat)) := by
  rw [colSums_getD _ _ _ hk, List.map_map]
  exact cast_range_sum' m (fun r => (f r).getD k 0)

/-- the 2-D running maximum over a rectangular table is the running maximum over its flattening -/
private theorem foldmax2_table (table : List (List Int)) (C : Nat) (hrows : ∀ sh ∈ table, sh.length = C) (m0 : Int) :
    (List.range table.length).foldl (fun m i => (List.range C).foldl (fun m j => max m (tableOf table i j)) m) m0
      = table.flatten.foldl max m0 := by
  induction table generalizing m0 with
  | nil => rfl
  | cons sh t ih =>
    have hC : sh.length = C := hrows sh (List.mem_cons_self ..)
    rw [List.length_cons, List.range_succ_eq_map, List.foldl_cons, List.foldl_map, List.flatten_cons,
      List.foldl_append]
    have h1 : (List.range C).foldl (fun m j => max m (tableOf (sh :: t) 0 j)) m0 = sh.foldl max m0 := by
      rw [← hC]; exact foldmax_range_getD sh m0
    rw [h1]
    exact ih (fun s hs => hrows s (List.mem_cons_of_mem _ hs)) _

private theorem foldmin2_table (table : List (List Int)) (C : Nat) (hrows : ∀ sh ∈ table, sh.length = C) (m0 : Int) :
    (List.range table.length).foldl (fun m i => (List.range C).foldl (fun m j => min m (tableOf table i j)) m) m0
      = table.flatten.foldl min m0 := by
  induction table generalizing m0 with
  | nil => rfl
  | cons sh t ih =>
    have hC : sh.length = C := hrows sh (List.mem_cons_self ..)
    rw [List.length_cons, List.range_succ_eq_map, List.foldl_cons, List.foldl_map, List.flatten_cons,
      List.foldl_append]
    have h1 : (List.range C).foldl (fun m j => min m (tableOf (sh :: t) 0 j)) m0 = sh.foldl min m0 := by
      rw [← hC]; exact foldmin_range_getD sh m0
    rw [h1]
    exact ih (fun s hs => hrows s (List.mem_cons_of_mem _ hs)) _

/-- `max(0, np.max(table))` on a non-empty rectangular table is `Dedisp.maxI` of its flattening -/
theorem startCol2_tableOf (table : List (List Int)) (C : Nat) (hrows : ∀ sh ∈ table, sh.length = C)
    (hC : 0 < C) (ht : 0 < table.length) :
    startCol2 (tableOf table) table.length C = Dedisp.maxI table.flatten := by
  unfold startCol2 maxArr2 Dedisp.maxI
  rw [foldmax2_table table C hrows, max_foldl_max]
  match table, hrows, ht with
  | [] :: t, hrows, _ =>
    have := hrows [] (List.mem_cons_self ..)
    simp at this; omega
  | (x :: sh) :: t, _, _ =>
    rw [List.flatten_cons, List.cons_append, List.foldl_cons, List.foldl_cons]
    congr 1
    show max (max 0 x) x = max 0 x
    omega

/-- `min(0, np.min(table))` on a non-empty rectangular table is `Dedisp.minI` of its flattening -/
theorem min_zero_minArr2_tableOf (table : List (List Int)) (C : Nat) (hrows : ∀ sh ∈ table, sh.length = C)
    (hC : 0 < C) (ht : 0 < table.length) :
    min 0 (minArr2 (tableOf table) table.length C) = Dedisp.minI table.flatten := by
  unfold minArr2 Dedisp.minI
  rw [foldmin2_table table C hrows, min_foldl_min]
  match table, hrows, ht with
  | [] :: t, hrows, _ =>
    have := hrows [] (List.mem_cons_self ..)
    simp at this; omega
  | (x :: sh) :: t, _, _ =>
    rw [List.flatten_cons, List.cons_append, List.foldl_cons, List.foldl_cons]
    congr 1
    show min (min 0 x) x = min 0 x
    omega

/-! ## the links -/

/-- link to the C09 model: `dmt_block` is `Dedisp.dmtBlock` cell by cell -/
theorem dmt_block_link (arrL : List (List Int)) (table : List (List Int)) (n : Nat)
    (hrect : ∀ row ∈ arrL, row.length = n) (h0 : 0 < arrL.length)
    (htab : ∀ sh ∈ table, sh.length = arrL.length) :
    ∃ res, dmt_block (arrOf arrL) arrL.length n (tableOf table) table.length arrL.length = some res ∧
      ∀ i k, i < table.length → k < n →
        res i k = (((((Dedisp.dmtBlock arrL table).getD i []).getD k 0 : Int)) : Rat) := by
  have _ := htab  -- not needed: cells of `rollBlock` beyond a short shift row read `getD _ 0` on both sides
  obtain ⟨res, hres, hspec⟩ := dmt_block_spec (arrOf arrL) arrL.length n (tableOf table) table.length
  refine ⟨res, hres, ?_⟩
  intro i k hi hk
  rw [hspec i k hi hk]
  have hn0 : (arrL.getD 0 []).length = n := hrect _ (Dedisp.getD_mem_of_lt' arrL 0 [] h0)
  unfold Dedisp.dmtBlock Dedisp.rollBlock
  rw [getD_map_lt _ _ _ [] _ hi, hn0, colSums_range_cast _ _ _ _ hk]
  refine rsum_congr _ _ _ (fun r hr => ?_)
  have hrow : (arrL.getD r []).length = n := hrect _ (Dedisp.getD_mem_of_lt' arrL r [] hr)
  rw [Dedisp.rollRow_getD _ _ _ (by omega), hrow]
  rfl

/-- link to the C09 model: `dmt_block_valid` rejects exactly when `Dedisp.dmtBlockValid` does, and otherwise
    computes the same cells over the common no-wrap window -/
theorem dmt_block_valid_link (arrL : List (List Int)) (table : List (List Int)) (n : Nat)
    (hrect : ∀ row ∈ arrL, row.length = n) (h0 : 0 < arrL.length) (ht0 : 0 < table.length)
    (htab : ∀ sh ∈ table, sh.length = arrL.length) :
    (dmt_block_valid (arrOf arrL) arrL.length n (tableOf table) table.length arrL.length = none ↔
        Dedisp.dmtBlockValid arrL table = .error .valueError) ∧
    ∀ res out, dmt_block_valid (arrOf arrL) arrL.length n (tableOf table) table.length arrL.length = some res →
      Dedisp.dmtBlockValid arrL table = .ok out →
      ∀ i k, i < table.length →
        k < (endCol2 (tableOf table) table.length arrL.length n - startCol2 (tableOf table) table.length arrL.length).toNat →
        res i k = ((((out.getD i []).getD k 0 : Int)) : Rat) := by
  have hS : startCol2 (tableOf table) table.length arrL.length = Dedisp.maxI table.flatten :=
    startCol2_tableOf table arrL.length htab h0 ht0
  have hE : endCol2 (tableOf table) table.length arrL.length n = (n : Int) + Dedisp.minI table.flatten := by
    unfold endCol2
    rw [min_zero_minArr2_tableOf table arrL.length htab h0 ht0]
  have hn0 : (arrL.getD 0 []).length = n := hrect _ (Dedisp.getD_mem_of_lt' arrL 0 [] h0)
  constructor
  · rw [dmt_block_valid_none_iff, hS, hE]
    unfold Dedisp.dmtBlockValid
    simp only [hn0]
    constructor
    · rintro (h | h)
      · exact absurd rfl h
      · rw [if_pos h]
    · intro h
      right
      by_contra hc
      rw [if_neg hc] at h
      cases h
  · intro res out hres hout i k hi hk
    unfold Dedisp.dmtBlockValid at hout
    simp only [hn0] at hout
    split at hout
    · cases hout
    · rename_i hpos
      injection hout with hout
      subst hout
      have hw : 0 < endCol2 (tableOf table) table.length arrL.length n
          - startCol2 (tableOf table) table.length arrL.length := by
        rw [hS, hE]; omega
      obtain ⟨res', hres', hspec⟩ :=
        dmt_block_valid_spec (arrOf arrL) arrL.length n (tableOf table) table.length hw
      rw [hres'] at hres
      injection hres with hres
      subst hres
      rw [hspec i k hi hk]
      rw [hS, hE] at hk
      rw [getD_map_lt _ _ _ [] _ hi, colSums_range_cast _ _ _ _ hk]
      refine rsum_congr _ _ _ (fun r hr => ?_)
      rw [Dedisp.getD_take_drop _ _ _ _ hk, hS]
      rfl

end SppModel.KernelSpecs

import SppModel.Lemmas.KernelLink
import SppModel.Lemmas.Loop
import SppModel.Generated.LoopKernels
import SppModel.Frozen.LoopKernels
/-!
# Kernel specification — `kernels.invert_freq` as translated computes its definition (C07)

`Generated/LoopKernels.lean` is re-translated from the source on every run (loop by loop, statement by
statement; arrays are total functions, integers `Nat`, floats exact rationals).  The theorem states, for
every array contents, every size and every output index, what the kernel leaves at that index.  An edit
of an index expression, a loop bound or an operand in the source changes the generated term and breaks
the proof.
-/
namespace SppModel.KernelSpecs
open SppModel SppModel.Loop SppModel.Frozen.LoopKernels SppModel.KernelSpecs.LinkB

/-- the kernel was recognised by the translator on this run -/
theorem invert_freq_translated : ∀ f ∈ Generated.LoopKernels.translationFailures, f.1 ∉ ["kernels_py_loops", "loop_invert_freq"] := by decide

/-- `invert_freq`: every spectrum reversed; cells beyond `C*n` keep the allocation value (modelled 0) -/
theorem invert_freq_spec (arr : Nat → Rat) (C n k : Nat) :
    invert_freq arr C n k = if 0 < C ∧ k / C < n then arr (C * (k / C) + (C - 1 - k % C)) else 0 := by
  unfold invert_freq
  induction n with
  | zero => simp
  | succ n ih =>
    simp only [forRange_succ, storeReversed] at ih ⊢
    by_cases hb : C * n ≤ k ∧ k < C * (n + 1)
    · rw [if_pos hb]
      obtain ⟨hC, hq⟩ := (block_iff C n k).1 (by rw [Nat.mul_succ] at hb; exact hb)
      have hm := Nat.div_add_mod k C
      have hr := Nat.mod_lt k hC
      rw [hq] at hm ⊢
      rw [if_pos ⟨hC, Nat.lt_succ_self n⟩]
      congr 1
      rw [Nat.mul_succ]; omega
    · rw [if_neg hb, ih]
      have hne : ¬ (0 < C ∧ k / C = n) :=
        fun h => hb (by rw [Nat.mul_succ]; exact (block_iff C n k).2 h)
      by_cases h2 : 0 < C ∧ k / C < n
      · have : 0 < C ∧ k / C < n + 1 := ⟨h2.1, by omega⟩
        rw [if_pos h2, if_pos this]
      · have : ¬ (0 < C ∧ k / C < n + 1) := by omega
        rw [if_neg h2, if_neg this]

/-- **link to the C07 model** (`Transform.invertRow`) -/
theorem invert_block_link (flat : List Int) (C : Nat) (b : Plan.Blk) (t c : Nat) (ht : t < b.len) (hc : c < C) :
    invert_freq (blockData flat C b) C b.len (C * t + c)
      = (((Transform.invertRow (Transform.row flat C (b.off + t))).getD c 0 : Int) : Rat) := by
  have hC : 0 < C := by omega
  rw [invert_freq_spec, cell_div C t c hc, cell_mod C t c hc, if_pos ⟨hC, ht⟩, blockData_cell]
  unfold Transform.invertRow
  rw [getD_reverse _ _ _ (by rw [row_length]; exact hc), row_length,
    row_getD _ _ _ _ (by omega)]

/-- the executable twin run by the correspondence check (`K` requests of the driver) is the same function:
    it only tabulates the loop state after each iteration (`Loop.forRangeM_eq`) -/
theorem invert_freq_exec_eq (memo : Nat) (arr : Nat → Rat) (C n : Nat) :
    Generated.LoopKernels.invert_freq_exec memo arr C n = Generated.LoopKernels.invert_freq arr C n := by
  simp only [Generated.LoopKernels.invert_freq_exec, Generated.LoopKernels.invert_freq, Loop.forRangeM_eq]

end SppModel.KernelSpecs

import SppModel.Lemmas.Loop
import SppModel.Generated.BlockKernels
import SppModel.Frozen.BlockKernels
import SppModel.Model.Dedisp
import SppModel.Lemmas.BlockKernels
/-!
# Kernel specification — `kernels.roll_block`, `roll_block_valid`, `dmt_block`, `dmt_block_valid` (C09)

`Generated/BlockKernels.lean` is re-translated from the source on every run, statement by statement
(2-D arrays are functions `Nat → Nat → Rat`, shifts are integers, `raise` is `none`).  The theorems
state, for every block, every shift table and every output cell, what each kernel leaves there, that
the "valid" variants never read outside a row (no wrap-around), when exactly they reject, and that the
hand model of C09 (`Model/Dedisp.lean`: `rollBlock`, `rollBlockValid`, `dmtBlock`, `dmtBlockValid`) is
the same function on lists.  An edit of a slice bound, a sign, the window arithmetic or a guard in the
source changes the generated term and breaks these proofs.
-/
namespace SppModel.KernelSpecs
open SppModel SppModel.Loop SppModel.Frozen.BlockKernels

/-- the kernels were recognised by the translator on this run -/
theorem block_kernels_translated : ∀ f ∈ Generated.BlockKernels.translationFailures,
    f.1 ∉ ["kernels_py_blocks", "block_roll_block", "block_roll_block_valid", "block_dmt_block", "block_dmt_block_valid"] := by
  decide

/-- a block given as a list of channel rows, as the functional array handed to the kernels -/
def arrOf (rows : List (List Int)) : Nat → Nat → Rat := fun r k => ((((rows.getD r []).getD k 0 : Int)) : Rat)
def shiftsOf (l : List Int) : Nat → Int := fun i => l.getD i 0
def tableOf (t : List (List Int)) : Nat → Nat → Int := fun i r => (t.getD i []).getD r 0

/-- the no-wrap window of a shift vector: `start_col = max(0, max shifts)`, `end_col = ncols + min(0, min shifts)` -/
def startCol (sh : Nat → Int) (n : Nat) : Int := max 0 (maxArr sh n)
def endCol (sh : Nat → Int) (n ncols : Nat) : Int := (ncols : Int) + min 0 (minArr sh n)
def startCol2 (d : Nat → Nat → Int) (r c : Nat) : Int := max 0 (maxArr2 d r c)
def endCol2 (d : Nat → Nat → Int) (r c ncols : Nat) : Int := (ncols : Int) + min 0 (minArr2 d r c)

/-! ## closed forms of the generated loops (helpers) -/

/-- what one iteration of the `roll_block` loop writes into its row -/
private def rollG (arr : Nat → Nat → Rat) (cols : Nat) (sh : Nat → Int) (i : Nat) (row : Nat → Rat) : Nat → Rat :=
  if ((sh i) % (cols : Int)).toNat = 0 then sliceInto row 0 cols (arr i) 0
  else sliceInto (sliceInto row ((sh i) % (cols : Int)).toNat cols (arr i) 0) 0 ((sh i) % (cols : Int)).toNat
    (arr i) (cols - ((sh i) % (cols : Int)).toNat)

private theorem roll_block_eq (arr : Nat → Nat → Rat) (rows cols : Nat) (sh : Nat → Int) :
    roll_block arr rows cols sh rows
      = some (fun r => if r < rows then rollG arr cols sh r (fun _ => 0) else fun _ => 0) := by
  unfold roll_block
  rw [if_neg (by simp)]
  simp only []
  congr 1
  funext r
  refine forRange_rows rows _ _ (rollG arr cols sh) ?_ r
  intro i res
  unfold rollG
  by_cases h : ((sh i) % (cols : Int)).toNat = 0
  · simp only [h, if_true]
  · simp only [if_neg h, setRow_setRow, setRow_same]

private theorem rollG_cell (arr : Nat → Nat → Rat) (cols : Nat) (sh : Nat → Int) (r : Nat) (row : Nat → Rat) (k : Nat)
    (hk : k < cols) :
    rollG arr cols sh r row k = arr r ((k + cols - ((sh r) % (cols : Int)).toNat) % cols) := by
  have hn : (0 : Int) < (cols : Int) := by omega
  have h0 := Int.emod_nonneg (sh r) hn.ne'
  have h1 := Int.emod_lt_of_pos (sh r) hn
  have hs : ((sh r) % (cols : Int)).toNat < cols := by omega
  rw [Dedisp.rot_index k cols _ hk hs]
  unfold rollG
  generalize ((sh r) % (cols : Int)).toNat = s at hs ⊢
  by_cases hz : s = 0
  · subst hz
    simp [sliceInto, hk]
  · rw [if_neg hz]
    by_cases hlt : k < s
    · simp [sliceInto, hlt]
    · simp [sliceInto, hlt, hk, Nat.le_of_not_lt hlt]

private theorem roll_block_valid_eq (arr : Nat → Nat → Rat) (rows cols : Nat) (sh : Nat → Int)
    (hw : 0 < endCol sh rows cols - startCol sh rows) :
    roll_block_valid arr rows cols sh rows
      = some (fun r => if r < rows then
          sliceInto (fun _ => 0) 0 (endCol sh rows cols - startCol sh rows).toNat (arr r) (startCol sh rows - sh r).toNat
        else fun _ => 0) := by
  unfold roll_block_valid
  rw [if_neg (by simp)]
  simp only []
  rw [if_neg (by unfold endCol startCol at hw; simp only [Nat.cast_zero]; omega)]
  congr 1
  funext r
  exact forRange_rows rows _ _ (fun i row => sliceInto row 0 (endCol sh rows cols - startCol sh rows).toNat (arr i)
    (startCol sh rows - sh i).toNat) (fun i res => rfl) r

private theorem dmt_block_eq (arr : Nat → Nat → Rat) (rows cols : Nat) (d : Nat → Nat → Int) (ndms : Nat) :
    dmt_block arr rows cols d ndms rows
      = some (fun i => if i < ndms then
          sliceInto (fun _ => 0) 0 cols (colSum ((roll_block arr rows cols (d i) rows).getD (fun _ _ => 0)) rows) 0
        else fun _ => 0) := by
  unfold dmt_block
  rw [if_neg (by simp)]
  simp only []
  congr 1
  funext i
  exact forRange_rows ndms _ _ (fun i row => sliceInto row 0 cols
    (colSum ((roll_block arr rows cols (d i) rows).getD (fun _ _ => 0)) rows) 0) (fun i res => rfl) i

private theorem dmt_block_valid_eq (arr : Nat → Nat → Rat) (rows cols : Nat) (d : Nat → Nat → Int) (ndms : Nat)
    (hw : 0 < endCol2 d ndms rows cols - startCol2 d ndms rows) :
    dmt_block_valid arr rows cols d ndms rows
      = some (fun i => if i < ndms then
          forRange rows (fun _ => 0) (fun j row => addSliceInto row 0 (endCol2 d ndms rows cols - startCol2 d ndms rows).toNat
            (arr j) (startCol2 d ndms rows - d i j).toNat)
        else fun _ => 0) := by
  unfold dmt_block_valid
  rw [if_neg (by simp)]
  simp only []
  rw [if_neg (by unfold endCol2 startCol2 at hw; simp only [Nat.cast_zero]; omega)]
  congr 1
  funext i
  refine forRange_rows ndms _ _ (fun i row => forRange rows row (fun j row =>
    addSliceInto row 0 (endCol2 d ndms rows cols - startCol2 d ndms rows).toNat (arr j)
      (startCol2 d ndms rows - d i j).toNat)) ?_ i
  intro i res
  exact forRange_one_row rows res i (fun j row =>
    addSliceInto row 0 (endCol2 d ndms rows cols - startCol2 d ndms rows).toNat (arr j)
      (startCol2 d ndms rows - d i j).toNat)

/-! ## `roll_block` -/

theorem roll_block_rejects (arr : Nat → Nat → Rat) (rows cols : Nat) (sh : Nat → Int) (len : Nat) (h : len ≠ rows) :
    roll_block arr rows cols sh len = none := by
  unfold roll_block
  rw [if_pos h]

/-- **`roll_block`, every cell**: row `r` is rotated right by `shifts[r] mod ncols` (Python modulo):
    `res[r, k] = arr[r, (k - shift) mod ncols]` -/
theorem roll_block_spec (arr : Nat → Nat → Rat) (rows cols : Nat) (sh : Nat → Int) :
    ∃ res, roll_block arr rows cols sh rows = some res ∧
      ∀ r k, r < rows → k < cols → res r k = arr r ((k + cols - ((sh r) % (cols : Int)).toNat) % cols) := by
  refine ⟨_, roll_block_eq arr rows cols sh, ?_⟩
  intro r k hr hk
  simp only [if_pos hr]
  exact rollG_cell arr cols sh r _ k hk

/-- link to the C09 model: on a rectangular block the generated kernel is `Dedisp.rollBlock` -/
theorem roll_block_link (arrL : List (List Int)) (shL : List Int) (n : Nat)
    (hrect : ∀ row ∈ arrL, row.length = n) (hsh : shL.length = arrL.length) :
    ∃ res, roll_block (arrOf arrL) arrL.length n (shiftsOf shL) shL.length = some res ∧
      ∀ r k, r < arrL.length → k < n →
        res r k = (((((Dedisp.rollBlock arrL shL).getD r []).getD k 0 : Int)) : Rat) := by
  rw [hsh]
  obtain ⟨res, hres, hspec⟩ := roll_block_spec (arrOf arrL) arrL.length n (shiftsOf shL)
  refine ⟨res, hres, ?_⟩
  intro r k hr hk
  rw [hspec r k hr hk]
  have hrow : (arrL.getD r []).length = n := hrect _ (Dedisp.getD_mem_of_lt' arrL r [] hr)
  unfold Dedisp.rollBlock
  rw [Dedisp.getD_map_range' _ _ _ _ hr, Dedisp.rollRow_getD _ _ _ (by omega), hrow]
  rfl

/-! ## `roll_block_valid` -/

/-- when it rejects: length mismatch, or the no-wrap window is empty -/
theorem roll_block_valid_none_iff (arr : Nat → Nat → Rat) (rows cols : Nat) (sh : Nat → Int) (len : Nat) :
    roll_block_valid arr rows cols sh len = none ↔ (len ≠ rows ∨ endCol sh len cols - startCol sh len ≤ 0) := by
  unfold roll_block_valid
  by_cases h : len ≠ rows
  · rw [if_pos h]
    exact ⟨fun _ => Or.inl h, fun _ => rfl⟩
  · rw [if_neg h]
    simp only []
    by_cases h2 : endCol sh len cols - startCol sh len ≤ 0
    · rw [if_pos (by unfold endCol startCol at h2; simp only [Nat.cast_zero]; omega)]
      exact ⟨fun _ => Or.inr h2, fun _ => rfl⟩
    · rw [if_neg (by unfold endCol startCol at h2; simp only [Nat.cast_zero]; omega)]
      constructor
      · intro hc; cases hc
      · rintro (hc | hc)
        · exact absurd hc h
        · exact absurd hc h2

/-- **`roll_block_valid`, every cell**: `res[r, k] = arr[r, start_col - shift_r + k]` for `k < end_col - start_col` -/
theorem roll_block_valid_spec (arr : Nat → Nat → Rat) (rows cols : Nat) (sh : Nat → Int)
    (hw : 0 < endCol sh rows cols - startCol sh rows) :
    ∃ res, roll_block_valid arr rows cols sh rows = some res ∧
      ∀ r k, r < rows → k < (endCol sh rows cols - startCol sh rows).toNat →
        res r k = arr r ((startCol sh rows - sh r).toNat + k) := by
  refine ⟨_, roll_block_valid_eq arr rows cols sh hw, ?_⟩
  intro r k hr hk
  simp only [if_pos hr]
  unfold sliceInto
  rw [if_pos ⟨Nat.zero_le _, hk⟩, Nat.sub_zero]

/-- the window never wraps: every cell read lies inside its row -/
theorem roll_block_valid_in_row (rows cols : Nat) (sh : Nat → Int) (r k : Nat) (hr : r < rows)
    (hk : k < (endCol sh rows cols - startCol sh rows).toNat) :
    0 ≤ startCol sh rows - sh r ∧ (startCol sh rows - sh r).toNat + k < cols := by
  have h1 := le_maxArr sh rows r hr
  have h2 := minArr_le sh rows r hr
  unfold endCol startCol at *
  omega

/-- link to the C09 model -/
theorem roll_block_valid_link (arrL : List (List Int)) (shL : List Int) (n : Nat) (h0 : 0 < arrL.length)
    (hrect : ∀ row ∈ arrL, row.length = n) (hsh : shL.length = arrL.length) :
    (roll_block_valid (arrOf arrL) arrL.length n (shiftsOf shL) shL.length = none ↔
        Dedisp.rollBlockValid arrL shL = .error .valueError) ∧
    ∀ res out, roll_block_valid (arrOf arrL) arrL.length n (shiftsOf shL) shL.length = some res →
      Dedisp.rollBlockValid arrL shL = .ok out →
      ∀ r k, r < arrL.length → k < (endCol (shiftsOf shL) shL.length n - startCol (shiftsOf shL) shL.length).toNat →
        res r k = ((((out.getD r []).getD k 0 : Int)) : Rat) := by
  have hS : startCol (shiftsOf shL) shL.length = Dedisp.maxI shL := max_zero_maxArr_getD shL
  have hE : endCol (shiftsOf shL) shL.length n = (n : Int) + Dedisp.minI shL := by
    unfold endCol
    rw [show minArr (shiftsOf shL) shL.length = minArr (fun i => shL.getD i 0) shL.length from rfl,
      min_zero_minArr_getD]
  have hn0 : (arrL.getD 0 []).length = n := hrect _ (Dedisp.getD_mem_of_lt' arrL 0 [] h0)
  rw [hsh] at hS hE ⊢
  constructor
  · rw [roll_block_valid_none_iff, hS, hE]
    unfold Dedisp.rollBlockValid
    simp only [hn0]
    constructor
    · rintro (h | h)
      · exact absurd rfl h
      · rw [if_pos h]
    · intro h
      right
      by_contra hc
      rw [if_neg hc] at h
      cases h
  · intro res out hres hout r k hr hk
    unfold Dedisp.rollBlockValid at hout
    simp only [hn0] at hout
    split at hout
    · cases hout
    · rename_i hpos
      injection hout with hout
      subst hout
      have hw : 0 < endCol (shiftsOf shL) arrL.length n - startCol (shiftsOf shL) arrL.length := by
        rw [hS, hE]; omega
      obtain ⟨res', hres', hspec⟩ := roll_block_valid_spec (arrOf arrL) arrL.length n (shiftsOf shL) hw
      rw [hres'] at hres
      injection hres with hres
      subst hres
      rw [hspec r k hr hk]
      rw [hS, hE] at hk
      rw [Dedisp.getD_map_range' _ _ _ _ hr, Dedisp.getD_take_drop _ _ _ _ hk, hS]
      rfl

/-! ## `dmt_block` -/

/-- **`dmt_block`, every cell**: row `i` is the channel sum of the block rotated by the `i`-th shift row -/
theorem dmt_block_spec (arr : Nat → Nat → Rat) (rows cols : Nat) (d : Nat → Nat → Int) (ndms : Nat) :
    ∃ res, dmt_block arr rows cols d ndms rows = some res ∧
      ∀ i k, i < ndms → k < cols →
        res i k = rsum rows (fun r => arr r ((k + cols - ((d i r) % (cols : Int)).toNat) % cols)) := by
  refine ⟨_, dmt_block_eq arr rows cols d ndms, ?_⟩
  intro i k hi hk
  simp only [if_pos hi]
  unfold sliceInto
  rw [if_pos ⟨Nat.zero_le _, hk⟩, Nat.sub_zero, Nat.zero_add, roll_block_eq, Option.getD_some, colSum_eq]
  refine rsum_congr rows _ _ (fun r hr => ?_)
  simp only [if_pos hr]
  exact rollG_cell arr cols (d i) r _ k hk

theorem dmt_block_rejects (arr : Nat → Nat → Rat) (rows cols : Nat) (d : Nat → Nat → Int) (ndms dcols : Nat)
    (h : rows ≠ dcols) : dmt_block arr rows cols d ndms dcols = none := by
  unfold dmt_block
  rw [if_pos h]

/-! ## `dmt_block_valid` -/

theorem dmt_block_valid_none_iff (arr : Nat → Nat → Rat) (rows cols : Nat) (d : Nat → Nat → Int) (ndms dcols : Nat) :
    dmt_block_valid arr rows cols d ndms dcols = none ↔
      (rows ≠ dcols ∨ endCol2 d ndms dcols cols - startCol2 d ndms dcols ≤ 0) := by
  unfold dmt_block_valid
  by_cases h : rows ≠ dcols
  · rw [if_pos h]
    exact ⟨fun _ => Or.inl h, fun _ => rfl⟩
  · rw [if_neg h]
    simp only []
    by_cases h2 : endCol2 d ndms dcols cols - startCol2 d ndms dcols ≤ 0
    · rw [if_pos (by unfold endCol2 startCol2 at h2; simp only [Nat.cast_zero]; omega)]
      exact ⟨fun _ => Or.inr h2, fun _ => rfl⟩
    · rw [if_neg (by unfold endCol2 startCol2 at h2; simp only [Nat.cast_zero]; omega)]
      constructor
      · intro hc; cases hc
      · rintro (hc | hc)
        · exact absurd hc h
        · exact absurd hc h2

/-- **`dmt_block_valid`, every cell**: one common window for the whole table;
    `res[i, k] = Σ_r arr[r, start_col - d[i, r] + k]` -/
theorem dmt_block_valid_spec (arr : Nat → Nat → Rat) (rows cols : Nat) (d : Nat → Nat → Int) (ndms : Nat)
    (hw : 0 < endCol2 d ndms rows cols - startCol2 d ndms rows) :
    ∃ res, dmt_block_valid arr rows cols d ndms rows = some res ∧
      ∀ i k, i < ndms → k < (endCol2 d ndms rows cols - startCol2 d ndms rows).toNat →
        res i k = rsum rows (fun r => arr r ((startCol2 d ndms rows - d i r).toNat + k)) := by
  refine ⟨_, dmt_block_valid_eq arr rows cols d ndms hw, ?_⟩
  intro i k hi hk
  simp only [if_pos hi]
  rw [forRange_addSlice, if_pos hk, zero_add]

/-- the common window never wraps, for any DM row and channel -/
theorem dmt_block_valid_in_row (rows cols : Nat) (d : Nat → Nat → Int) (ndms i r k : Nat) (hi : i < ndms) (hr : r < rows)
    (hk : k < (endCol2 d ndms rows cols - startCol2 d ndms rows).toNat) :
    0 ≤ startCol2 d ndms rows - d i r ∧ (startCol2 d ndms rows - d i r).toNat + k < cols := by
  have h1 := le_maxArr2 d ndms rows i r hi hr
  have h2 := minArr2_le d ndms rows i r hi hr
  unfold endCol2 startCol2 at *
  omega

/-! ## the executable twins run by the correspondence check are the same functions -/

theorem roll_block_exec_eq (memo : Nat) (arr : Nat → Nat → Rat) (rows cols : Nat) (sh : Nat → Int) (len : Nat) :
    Generated.BlockKernels.roll_block_exec memo arr rows cols sh len = Generated.BlockKernels.roll_block arr rows cols sh len := by
  simp only [Generated.BlockKernels.roll_block_exec, Generated.BlockKernels.roll_block, Loop.forRangeM_eq]

theorem roll_block_valid_exec_eq (memo : Nat) (arr : Nat → Nat → Rat) (rows cols : Nat) (sh : Nat → Int) (len : Nat) :
    Generated.BlockKernels.roll_block_valid_exec memo arr rows cols sh len = Generated.BlockKernels.roll_block_valid arr rows cols sh len := by
  simp only [Generated.BlockKernels.roll_block_valid_exec, Generated.BlockKernels.roll_block_valid, Loop.forRangeM_eq]

theorem dmt_block_exec_eq (memo : Nat) (arr : Nat → Nat → Rat) (rows cols : Nat) (d : Nat → Nat → Int) (a b : Nat) :
    Generated.BlockKernels.dmt_block_exec memo arr rows cols d a b = Generated.BlockKernels.dmt_block arr rows cols d a b := by
  simp only [Generated.BlockKernels.dmt_block_exec, Generated.BlockKernels.dmt_block, Loop.forRangeM_eq, roll_block_exec_eq]

theorem dmt_block_valid_exec_eq (memo : Nat) (arr : Nat → Nat → Rat) (rows cols : Nat) (d : Nat → Nat → Int) (a b : Nat) :
    Generated.BlockKernels.dmt_block_valid_exec memo arr rows cols d a b = Generated.BlockKernels.dmt_block_valid arr rows cols d a b := by
  simp only [Generated.BlockKernels.dmt_block_valid_exec, Generated.BlockKernels.dmt_block_valid, Loop.forRangeM_eq]

/-- non-vacuity: a 2×3 block rolled by (1, -1) -/
example : ((roll_block (arrOf [[1, 2, 3], [4, 5, 6]]) 2 3 (shiftsOf [1, -1]) 2).getD (fun _ _ => 0)) 0 0 = 3
    ∧ ((roll_block (arrOf [[1, 2, 3], [4, 5, 6]]) 2 3 (shiftsOf [1, -1]) 2).getD (fun _ _ => 0)) 1 0 = 5 := by
  rw [roll_block_eq, Option.getD_some]
  simp only [show (0 : Nat) < 2 from by decide, show (1 : Nat) < 2 from by decide, if_true]
  rw [rollG_cell _ _ _ _ _ _ (by decide), rollG_cell _ _ _ _ _ _ (by decide)]
  decide

example : 0 < endCol (shiftsOf [1, -1]) 2 5 - startCol (shiftsOf [1, -1]) 2 := by decide

end SppModel.KernelSpecs

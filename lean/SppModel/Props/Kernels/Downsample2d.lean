import SppModel.Lemmas.KernelLink
import SppModel.Lemmas.Loop
import SppModel.Generated.LoopKernels
import SppModel.Frozen.LoopKernels
/-!
# Kernel specification — `kernels.downsample_2d_mean_flat` as translated computes its definition (C07, C14)

`Generated/LoopKernels.lean` is re-translated from the source on every run (loop by loop, statement by
statement; arrays are total functions, integers `Nat`, floats exact rationals).  The theorem states, for
every array contents, every size and every output index, what the kernel leaves at that index.  An edit
of an index expression, a loop bound or an operand in the source changes the generated term and breaks
the proof.
-/
namespace SppModel.KernelSpecs
open SppModel SppModel.Loop SppModel.Frozen.LoopKernels SppModel.KernelSpecs.LinkC

/-- the kernel was recognised by the translator on this run -/
theorem downsample_2d_mean_flat_translated : ∀ f ∈ Generated.LoopKernels.translationFailures, f.1 ∉ ["kernels_py_loops", "loop_downsample_2d_mean_flat"] := by decide

/-- `downsample_2d_mean_flat`: `result[n2*i + j] = (Σ_{a<f1} Σ_{b<f2} x[d2*i*f1 + j*f2 + a*d2 + b]) / (f1*f2)`
    for `i < d1/f1`, `j < n2 = d2/f2` -/
theorem downsample_2d_mean_flat_spec (arr : Nat → Rat) (f1 f2 d1 d2 k : Nat) :
    downsample_2d_mean_flat arr f1 f2 d1 d2 k
      = if 0 < d2 / f2 ∧ k / (d2 / f2) < d1 / f1 then
          rsum f1 (fun a => rsum f2 (fun b =>
            arr (d2 * (k / (d2 / f2)) * f1 + (k % (d2 / f2)) * f2 + a * d2 + b))) / ((f1 * f2 : Nat) : Rat)
        else 0 := by
  unfold downsample_2d_mean_flat
  simp only [forRange_acc2, zero_add]
  rw [forRange_upd_grid]

/-- **link to the C07 model** (`Transform.downsampleBlock`, which keeps the SUM of each `tf × ff` cell) -/
theorem downsample_block_link (flat : List Int) (C tf ff : Nat) (b : Plan.Blk) (i j : Nat)
    (htf : 0 < tf) (hff : 0 < ff) (hi : i < b.len / tf) (hj : j < C / ff) :
    downsample_2d_mean_flat (blockData flat C b) tf ff b.len C ((C / ff) * i + j) * ((tf * ff : Nat) : Rat)
      = ((((Transform.downsampleBlock flat C tf ff b).getD i []).getD j 0 : Int) : Rat) := by
  have hN : 0 < C / ff := by omega
  have hq : ((C / ff) * i + j) / (C / ff) = i := by
    rw [Nat.mul_add_div hN, Nat.div_eq_of_lt hj]; rfl
  have hr : ((C / ff) * i + j) % (C / ff) = j := by
    rw [Nat.mul_add_mod, Nat.mod_eq_of_lt hj]
  have hne : ((tf * ff : Nat) : Rat) ≠ 0 := by
    have : 0 < tf * ff := Nat.mul_pos htf hff
    exact_mod_cast (Nat.pos_iff_ne_zero.1 this)
  rw [downsample_2d_mean_flat_spec, hq, hr, if_pos ⟨hN, hi⟩, div_mul_cancel₀ _ hne]
  unfold Transform.downsampleBlock
  rw [getD_map_range _ _ _ _ hi, getD_map_range _ _ _ _ hj, cast_range_sum]
  apply rsum_congr
  intro a _
  rw [cast_range_sum]
  apply rsum_congr
  intro e _
  unfold blockData Reduce.getS
  congr 2
  ring

/-- **link to the C14 model**: `Filters.downsample2dFlat` is the kernel, cell by cell -/
theorem downsample2dFlat_is_kernel (x : List Rat) (d1 d2 f1 f2 : Nat) :
    Filters.downsample2dFlat x d1 d2 f1 f2
      = (List.range ((d1 / f1) * (d2 / f2))).map (downsample_2d_mean_flat (fun k => x.getD k 0) f1 f2 d1 d2) := by
  unfold Filters.downsample2dFlat
  rw [flatMap_range_grid]
  apply List.map_congr_left
  intro k hk
  have hk : k < (d1 / f1) * (d2 / f2) := List.mem_range.1 hk
  have hN : 0 < d2 / f2 := by
    rcases Nat.eq_zero_or_pos (d2 / f2) with h | h
    · rw [h, Nat.mul_zero] at hk; omega
    · exact h
  have hq : k / (d2 / f2) < d1 / f1 := (Nat.div_lt_iff_lt_mul hN).2 hk
  rw [downsample_2d_mean_flat_spec, if_pos ⟨hN, hq⟩]
  rfl

/-- the executable twin run by the correspondence check (`K` requests of the driver) is the same function:
    it only tabulates the loop state after each iteration (`Loop.forRangeM_eq`) -/
theorem downsample_2d_mean_flat_exec_eq (memo : Nat) (arr : Nat → Rat) (f1 f2 d1 d2 : Nat) :
    Generated.LoopKernels.downsample_2d_mean_flat_exec memo arr f1 f2 d1 d2 = Generated.LoopKernels.downsample_2d_mean_flat arr f1 f2 d1 d2 := by
  simp only [Generated.LoopKernels.downsample_2d_mean_flat_exec, Generated.LoopKernels.downsample_2d_mean_flat, Loop.forRangeM_eq]

end SppModel.KernelSpecs

import SppModel.Lemmas.KernelLink
import SppModel.Lemmas.Loop
import SppModel.Generated.LoopKernels
import SppModel.Frozen.LoopKernels
/-!
# Kernel specification — `kernels.subband` as translated computes its definition (C07, C09)

`Generated/LoopKernels.lean` is re-translated from the source on every run (loop by loop, statement by
statement; arrays are total functions, integers `Nat`, floats exact rationals).  The theorem states, for
every array contents, every size and every output index, what the kernel leaves at that index.  An edit
of an index expression, a loop bound or an operand in the source changes the generated term and breaks
the proof.
-/
namespace SppModel.KernelSpecs
open SppModel SppModel.Loop SppModel.Frozen.LoopKernels SppModel.KernelSpecs.LinkC

/-- the kernel was recognised by the translator on this run -/
theorem subband_translated : ∀ f ∈ Generated.LoopKernels.translationFailures, f.1 ∉ ["kernels_py_loops", "loop_subband"] := by decide

/-- `subband`: `out[S*t + s] += Σ_{c : sub c = s} in[C*(t + delay_c) + c]` for `t < n - maxdelay` -/
theorem subband_spec (inp out : Nat → Rat) (dl sub : Nat → Nat) (md C S n k : Nat) (hsub : ∀ c < C, sub c < S) :
    subband inp out dl sub md C S n k
      = if 0 < S ∧ k / S < n - md then
          out k + rsum C (fun c => if sub c = k % S then inp (C * (k / S + dl c) + c) else 0)
        else out k := by
  unfold subband
  generalize n - md = m
  induction m with
  | zero => simp
  | succ m ih =>
    simp only [forRange_succ] at ih ⊢
    rw [forRange_scatter_add, ih]
    by_cases hb : 0 < S ∧ k / S = m
    · obtain ⟨hS, hq⟩ := hb
      subst hq
      rw [if_neg (by omega), if_pos ⟨hS, Nat.lt_succ_self _⟩]
      congr 1
      apply rsum_congr
      intro c hc
      have hs := hsub c hc
      have hm := Nat.div_add_mod k S
      have hr := Nat.mod_lt k hS
      by_cases e : sub c = k % S
      · rw [if_pos e, if_pos (by omega)]
      · rw [if_neg e, if_neg]
        intro e2
        apply e
        rw [← e2, Nat.mul_add_mod, Nat.mod_eq_of_lt hs]
    · have hz : rsum C (fun c => if S * m + sub c = k then inp (C * (m + dl c) + c) else 0) = 0 := by
        refine (rsum_congr C _ _ ?_).trans (rsum_zero_fun C)
        intro c hc
        have hs := hsub c hc
        rw [if_neg]
        intro e
        exact hb ((block_iff S m k).1 ⟨by omega, by omega⟩)
      rw [hz, add_zero]
      by_cases h2 : 0 < S ∧ k / S < m
      · have : 0 < S ∧ k / S < m + 1 := ⟨h2.1, by omega⟩
        rw [if_pos h2, if_pos this]
      · have : ¬ (0 < S ∧ k / S < m + 1) := by omega
        rw [if_neg h2, if_neg this]

/-- **link to the C07/C09 model** (`Transform.subbandRow`), with `chan_to_sub[c] = c // (C // nsub)` as built by
    `Filterbank.subband` -/
theorem subband_block_link (flat : List Int) (C : Nat) (delays : List Nat) (md nsub : Nat) (b : Plan.Blk)
    (out : Nat → Rat) (t s : Nat) (ht : t < b.len - md) (hs : s < nsub)
    (hsub : ∀ c < C, c / (C / nsub) < nsub) :
    subband (blockData flat C b) out (fun c => delays.getD c 0) (fun c => c / (C / nsub)) md C nsub b.len (nsub * t + s)
      = out (nsub * t + s) + (((Transform.subbandRow flat C delays nsub (b.off + t)).getD s 0 : Int) : Rat) := by
  have hS : 0 < nsub := by omega
  have hq : (nsub * t + s) / nsub = t := by
    rw [Nat.mul_add_div hS, Nat.div_eq_of_lt hs]; rfl
  have hr : (nsub * t + s) % nsub = s := by
    rw [Nat.mul_add_mod, Nat.mod_eq_of_lt hs]
  rw [subband_spec _ _ _ _ _ _ _ _ _ hsub, hq, hr, if_pos ⟨hS, ht⟩]
  congr 1
  unfold Transform.subbandRow
  rw [getD_map_range _ _ _ _ hs, cast_range_sum]
  apply rsum_congr
  intro c _
  by_cases e : c / (C / nsub) = s
  · rw [if_pos e, if_pos e]
    unfold blockData Reduce.getS
    congr 2
    ring
  · rw [if_neg e, if_neg e]
    rfl

/-- the executable twin run by the correspondence check (`K` requests of the driver) is the same function:
    it only tabulates the loop state after each iteration (`Loop.forRangeM_eq`) -/
theorem subband_exec_eq (memo : Nat) (inp out : Nat → Rat) (dl sub : Nat → Nat) (md C S n : Nat) :
    Generated.LoopKernels.subband_exec memo inp out dl sub md C S n = Generated.LoopKernels.subband inp out dl sub md C S n := by
  simp only [Generated.LoopKernels.subband_exec, Generated.LoopKernels.subband, Loop.forRangeM_eq]

end SppModel.KernelSpecs

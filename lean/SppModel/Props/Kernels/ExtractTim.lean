import SppModel.Generated.ReaderArith
import SppModel.Frozen.ReaderArith
import SppModel.Lemmas.KernelLink
import SppModel.Lemmas.Loop
import SppModel.Generated.LoopKernels
import SppModel.Frozen.LoopKernels
/-!
# Kernel specification — `kernels.extract_tim` as translated computes its definition (C06)

`Generated/LoopKernels.lean` is re-translated from the source on every run (loop by loop, statement by
statement; arrays are total functions, integers `Nat`, floats exact rationals).  The theorem states, for
every array contents, every size and every output index, what the kernel leaves at that index.  An edit
of an index expression, a loop bound or an operand in the source changes the generated term and breaks
the proof.
-/
namespace SppModel.KernelSpecs
open SppModel SppModel.Loop SppModel.Frozen.LoopKernels SppModel.KernelSpecs.LinkA

/-- the kernel was recognised by the translator on this run -/
theorem extract_tim_translated : ∀ f ∈ Generated.LoopKernels.translationFailures, f.1 ∉ ["kernels_py_loops", "loop_extract_tim"] := by decide

/-- `extract_tim`: `out[index + t] = Σ_c in[C*t + c]` for `t < n`; nothing else is touched -/
theorem extract_tim_spec (inp out : Nat → Rat) (C n idx j : Nat) :
    extract_tim inp out C n idx j
      = if idx ≤ j ∧ j < idx + n then rsum C (fun c => inp (C * (j - idx) + c)) else out j := by
  unfold extract_tim
  induction n with
  | zero =>
    have : ¬ (idx ≤ j ∧ j < idx + 0) := by omega
    simp [this]
  | succ n ih =>
    simp only [forRange_succ, upd_apply] at ih ⊢
    by_cases h : j = idx + n
    · subst h
      have e : C * (n + 1) - C * n = C := by rw [Nat.mul_succ]; omega
      simp [sumSlice_eq, e]
    · rw [if_neg h, ih]
      by_cases h2 : idx ≤ j ∧ j < idx + n
      · have : idx ≤ j ∧ j < idx + (n + 1) := by omega
        simp [h2, this]
      · have : ¬ (idx ≤ j ∧ j < idx + (n + 1)) := by omega
        simp [h2, this]

/-- **link to the C06 model**: run on the data of plan block `b` with the source's output offset, the kernel
    writes at the model's index `b.ii * g + t` exactly the model's value `rowSum` (`Reduce.collapseWrites`) -/
theorem collapse_block_link (flat : List Int) (C g : Nat) (b : Plan.Blk) (out : Nat → Rat) (t : Nat) (ht : t < b.len) :
    extract_tim (blockData flat C b) out C b.len (Frozen.ReaderArith.collapse_index g b.ii) (b.ii * g + t)
      = ((Reduce.rowSum flat C (b.off + t) : Int) : Rat) := by
  rw [extract_tim_spec]
  unfold Frozen.ReaderArith.collapse_index
  have h : b.ii * g ≤ b.ii * g + t ∧ b.ii * g + t < b.ii * g + b.len := by omega
  rw [if_pos h, Nat.add_sub_cancel_left]
  unfold Reduce.rowSum
  rw [cast_range_sum]
  exact rsum_congr C _ _ (fun c _ => blockData_getS flat C b t c)

/-- the executable twin run by the correspondence check (`K` requests of the driver) is the same function:
    it only tabulates the loop state after each iteration (`Loop.forRangeM_eq`) -/
theorem extract_tim_exec_eq (memo : Nat) (inp out : Nat → Rat) (C n idx : Nat) :
    Generated.LoopKernels.extract_tim_exec memo inp out C n idx = Generated.LoopKernels.extract_tim inp out C n idx := by
  simp only [Generated.LoopKernels.extract_tim_exec, Generated.LoopKernels.extract_tim, Loop.forRangeM_eq]

end SppModel.KernelSpecs

import SppModel.Lemmas.Reduce
/-!
# C06 — the streaming reductions do not depend on the gulp

`collapse`, `readChan`, `bandpass` and `dedisperse` (`Model/Reduce.lean`) fold a
kernel over the blocks of the C01 read plan, writing at `ii*gulp + t`
(`ii*(gulp-maxdelay) + t` for dedispersion).  For every in-range request and
EVERY positive gulp — smaller or larger than the range, smaller than twice the
maximum delay — the plan completes and the output is the closed-form reduction of
samples `[s, s+n)`: each output cell is written exactly once, in order.
No bound on any of `g s n N C`, the data or the delays.
-/
namespace SppModel.Reduce
open SppModel SppModel.Plan

/-- applying writes `(j, f j)` for `j = 0..n-1` to a zeroed array gives `map f` -/
theorem applySet_range (f : Nat → Int) (n : Nat) :
    applySet (List.replicate n 0) ((List.range n).map (fun j => (j, f j))) = (List.range n).map f := by
  have := applySet_pre f n []
  simpa [List.range_eq_range'] using this

theorem applyAdd_range (f : Nat → Int) (n : Nat) :
    applyAdd (List.replicate n 0) ((List.range n).map (fun j => (j, f j))) = (List.range n).map f := by
  have := applyAdd_pre f n []
  simpa [List.range_eq_range'] using this

/-- the kernel writes of all blocks are exactly one write per output cell, in order -/
theorem collapseWrites_eq (flat : List Int) (C g s n N : Nat) (hg : 0 < g) (hn : 0 < n) (hr : s + n ≤ N) :
    ∃ bs, blocksOf g s n 0 N = .ok bs ∧
      collapseWrites flat C g bs = (List.range n).map (fun j => (j, rowSum flat C (s + j))) :=
  ⟨_, blocksOf_zero g s n N hg hn hr,
    expected_flatMap g s n 0 g (accepted_zero g n hg hn) (mult_zero g n)
      (fun j p => (j, rowSum flat C p))⟩

/-- the same for `read_chan` -/
theorem readChanWrites_eq (flat : List Int) (C g s n N ichan : Nat) (hg : 0 < g) (hn : 0 < n) (hr : s + n ≤ N) :
    ∃ bs, blocksOf g s n 0 N = .ok bs ∧
      readChanWrites flat C g ichan bs = (List.range n).map (fun j => (j, getS flat C (s + j) ichan)) :=
  ⟨_, blocksOf_zero g s n N hg hn hr,
    expected_flatMap g s n 0 g (accepted_zero g n hg hn) (mult_zero g n)
      (fun j p => (j, getS flat C p ichan))⟩

/-- the dedispersion kernel writes: one per output cell `j < n - maxdelay`, in order -/
theorem dedispWrites_eq (flat : List Int) (C : Nat) (delays : List Nat) (g s n N : Nat)
    (hmd : maxDelay delays < n) (hg : 0 < g) (hr : s + n ≤ N) :
    ∃ bs, blocksOf (max (2 * maxDelay delays) g) s n (maxDelay delays) N = .ok bs ∧
      dedispWrites flat C delays (maxDelay delays) (max (2 * maxDelay delays) g) bs
        = (List.range (n - maxDelay delays)).map (fun j => (j, dedispSum flat C delays (s + j))) :=
  ⟨_, blocksOf_dedisp g s n _ N hmd hg hr,
    expected_flatMap _ s n _ _ (accepted_dedisp g n _ hmd hg) (mult_dedisp g n _)
      (fun j p => (j, dedispSum flat C delays p))⟩

/-- **C06 (collapse)**: the time series is the sum over channels of each sample of
    `[s, s+n)`, for EVERY gulp. -/
theorem collapse_eq (flat : List Int) (C g s n N : Nat) (hg : 0 < g) (hn : 0 < n) (hr : s + n ≤ N) :
    collapse flat C g s n N = .ok ((List.range n).map (fun j => rowSum flat C (s + j))) := by
  obtain ⟨bs, hb, hw⟩ := collapseWrites_eq flat C g s n N hg hn hr
  simp only [collapse, hb, hw, applySet_range]

/-- **C06 (read_chan)**: one channel of samples `[s, s+n)`, for every gulp. -/
theorem readChan_eq (flat : List Int) (C g s n N ichan : Nat) (hc : ichan < C) (hg : 0 < g) (hn : 0 < n)
    (hr : s + n ≤ N) :
    readChan flat C g s n N ichan = .ok ((List.range n).map (fun j => getS flat C (s + j) ichan)) := by
  obtain ⟨bs, hb, hw⟩ := readChanWrites_eq flat C g s n N ichan hg hn hr
  have hc' : ¬ ichan ≥ C := by omega
  simp only [readChan, hc', ↓reduceIte, hb, hw, applySet_range]

/-- **C06 (bandpass)**: per-channel sums over samples `[s, s+n)` and the sample
    count `n`, for every gulp. -/
theorem bandpass_eq (flat : List Int) (C g s n N : Nat) (hg : 0 < g) (hn : 0 < n) (hr : s + n ≤ N) :
    bandpass flat C g s n N
      = .ok (n, (List.range C).map (fun c => ((List.range n).map (fun j => getS flat C (s + j) c)).sum)) := by
  have hA := accepted_zero g n hg hn
  have hcnt : ((expected g s n 0).map (·.len)).sum = n := by
    have h := congrArg List.length
      (expected_flatMap g s n 0 g hA (mult_zero g n) (fun j _ => j))
    simpa [List.length_flatMap] using h
  have hval : ∀ c, ((expected g s n 0).map
        (fun b => ((List.range b.len).map (fun t => getS flat C (b.off + t) c)).sum)).sum
      = ((List.range n).map (fun j => getS flat C (s + j) c)).sum := by
    intro c
    rw [← sum_flatMap_int]
    exact congrArg List.sum
      (expected_flatMap g s n 0 g hA (mult_zero g n) (fun _ p => getS flat C p c))
  simp only [bandpass, blocksOf_zero g s n N hg hn hr, hcnt, hval]

/-- **C06 (dedisperse)**: `Σ_c x[s+t+delay_c, c]` for `t < n - maxdelay`, every
    cell written exactly once, for EVERY gulp (including `gulp < 2*maxdelay`
    and `gulp > n`). -/
theorem dedisperse_eq (flat : List Int) (C : Nat) (delays : List Nat) (g s n N : Nat)
    (hmd : maxDelay delays < n) (hg : 0 < g) (hr : s + n ≤ N) :
    dedisperse flat C delays g s n N
      = .ok ((List.range (n - maxDelay delays)).map (fun j => dedispSum flat C delays (s + j))) := by
  obtain ⟨bs, hb, hw⟩ := dedispWrites_eq flat C delays g s n N hmd hg hr
  have hn : ¬ n ≤ maxDelay delays := by omega
  simp only [dedisperse, hn, ↓reduceIte, hb, hw, applyAdd_range]

/-! ## Changing only the gulp never changes the result -/

theorem collapse_gulp_independent (flat : List Int) (C g₁ g₂ s n N : Nat) (h₁ : 0 < g₁) (h₂ : 0 < g₂)
    (hn : 0 < n) (hr : s + n ≤ N) :
    collapse flat C g₁ s n N = collapse flat C g₂ s n N := by
  rw [collapse_eq flat C g₁ s n N h₁ hn hr, collapse_eq flat C g₂ s n N h₂ hn hr]

theorem readChan_gulp_independent (flat : List Int) (C g₁ g₂ s n N ichan : Nat) (hc : ichan < C)
    (h₁ : 0 < g₁) (h₂ : 0 < g₂) (hn : 0 < n) (hr : s + n ≤ N) :
    readChan flat C g₁ s n N ichan = readChan flat C g₂ s n N ichan := by
  rw [readChan_eq flat C g₁ s n N ichan hc h₁ hn hr, readChan_eq flat C g₂ s n N ichan hc h₂ hn hr]

theorem bandpass_gulp_independent (flat : List Int) (C g₁ g₂ s n N : Nat) (h₁ : 0 < g₁) (h₂ : 0 < g₂)
    (hn : 0 < n) (hr : s + n ≤ N) :
    bandpass flat C g₁ s n N = bandpass flat C g₂ s n N := by
  rw [bandpass_eq flat C g₁ s n N h₁ hn hr, bandpass_eq flat C g₂ s n N h₂ hn hr]

theorem dedisperse_gulp_independent (flat : List Int) (C : Nat) (delays : List Nat) (g₁ g₂ s n N : Nat)
    (hmd : maxDelay delays < n) (h₁ : 0 < g₁) (h₂ : 0 < g₂) (hr : s + n ≤ N) :
    dedisperse flat C delays g₁ s n N = dedisperse flat C delays g₂ s n N := by
  rw [dedisperse_eq flat C delays g₁ s n N hmd h₁ hr, dedisperse_eq flat C delays g₂ s n N hmd h₂ hr]

/-! ## Non-vacuity on concrete data -/

-- 4 samples × 2 channels, samples [1,4) with gulp 3 (single block) …
example : collapse [1, 2, 3, 4, 5, 6, 7, 8] 2 3 1 3 4 = .ok [7, 11, 15] := by rfl
-- … and with gulp 2: two blocks ⟨0,1,2⟩ ⟨1,3,1⟩, same answer
example : blocksOf 2 1 3 0 4 = .ok [⟨0, 1, 2⟩, ⟨1, 3, 1⟩] := by rfl
example : collapse [1, 2, 3, 4, 5, 6, 7, 8] 2 2 1 3 4 = .ok [7, 11, 15] := by rfl
example : collapse [1, 2, 3, 4, 5, 6, 7, 8] 2 1 1 3 4 = .ok [7, 11, 15] := by rfl
example : readChan [1, 2, 3, 4, 5, 6, 7, 8] 2 2 0 4 4 1 = .ok [2, 4, 6, 8] := by rfl
example : bandpass [1, 2, 3, 4, 5, 6, 7, 8] 2 3 0 4 4 = .ok (4, [16, 20]) := by rfl
-- dedispersion, 6 samples × 2 channels, delays [0,2] (maxdelay 2): gulp 1 < 2*maxdelay is raised
-- to 4, giving overlapping blocks ⟨0,0,4⟩ ⟨1,2,4⟩ and a last block ⟨2,4,2⟩ that contributes no
-- output cell; gulp 100 > n reads one block
example : maxDelay [0, 2] = 2 := by rfl
example : blocksOf (max (2 * 2) 1) 0 6 2 6 = .ok [⟨0, 0, 4⟩, ⟨1, 2, 4⟩, ⟨2, 4, 2⟩] := by rfl
example : dedisperse [1, 2, 3, 4, 5, 6, 7, 8, 9, 10, 11, 12] 2 [0, 2] 1 0 6 6 = .ok [7, 11, 15, 19] := by rfl
example : dedisperse [1, 2, 3, 4, 5, 6, 7, 8, 9, 10, 11, 12] 2 [0, 2] 100 0 6 6 = .ok [7, 11, 15, 19] := by rfl
example : dedisperse [1, 2, 3, 4, 5, 6, 7, 8, 9, 10, 11, 12] 2 [0, 2] 5 0 6 6 = .ok [7, 11, 15, 19] := by rfl
-- the hypotheses are needed: a range no longer than the maximum delay is an error
example : dedisperse [1, 2, 3, 4] 2 [0, 2] 1 0 2 2 = .error .valueError := by rfl

end SppModel.Reduce

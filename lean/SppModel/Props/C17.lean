import SppModel.Lemmas.FoldedCube
/-!
# C17 — `FoldedData.update_dm / update_period`: the cube depends only on the LAST targets

The model (`Model/FoldedCube.lean`) keeps the shifts already applied (`fph` per
sub-band, `tph` per sub-integration) and every update rolls each profile by the
DIFFERENCE between the drift of the new target and the shift already applied.

1. `rollP` (= `np.roll(p, -k)`) is a rotation: it composes additively, `rollP p 0 = p`,
   it only permutes the bins.
2. MAIN (`cube_after_history`): after ANY history profile `(i,b)` is the ORIGINAL
   profile rolled by `lastDm[b] + lastPeriod[i]`; intermediate targets leave no trace.
3. corollaries: history irrelevance, idempotence, returning to the folding values
   restores the cube bit for bit, the multiset of bins of every profile is preserved,
   DM and period updates commute.

Shape caveat (the only deviation from the requested statements): `init` reads the
number of sub-bands off `data[0]`, so for the EMPTY cube (`ni = 0`) `fph = []`
whatever `nb` is.  The `fph` conjunct of `cube_after_history` therefore carries
`hne : ni = 0 → nb = 0` (weaker than `0 < ni`); `cube_after_history_data` gives the
other three conjuncts with no such hypothesis, and all corollaries are
hypothesis-free (exactly as requested).
-/
namespace SppModel.FoldedCube
open SppModel SppModel.Dedisp

/-! ## 1. `rollP` is a rotation -/

/-- rolling composes: `np.roll(np.roll(p, -a), -b) = np.roll(p, -(a+b))` -/
theorem rollP_rollP (p : List Int) (a b : Int) : rollP (rollP p a) b = rollP p (a + b) :=
  rollP_rollP' p a b

theorem rollP_zero (p : List Int) : rollP p 0 = p := rollP_zero' p

/-- only rotates: the multiset of bin values is preserved -/
theorem rollP_perm (p : List Int) (k : Int) : (rollP p k).Perm p := rollP_perm' p k

theorem rollP_length (p : List Int) (k : Int) : (rollP p k).length = p.length := rollP_length' p k

/-- rolling back undoes the roll -/
theorem rollP_neg_cancel (p : List Int) (k : Int) : rollP (rollP p k) (-k) = p := by
  rw [rollP_rollP, Int.add_right_neg, rollP_zero]

/-- a full turn is the identity -/
theorem rollP_period (p : List Int) (k : Int) : rollP p (k + p.length) = rollP p k := by
  apply List.ext_getElem?
  intro t
  by_cases ht : t < p.length
  · rw [rollP_get p _ t ht, rollP_get p k t ht, ← Int.add_assoc, Int.add_emod_right]
  · rw [List.getElem?_eq_none (by rw [rollP_length]; omega),
      List.getElem?_eq_none (by rw [rollP_length]; omega)]

/-! ## 2. the cube after any history -/

/-- MAIN: after ANY history the cube is the original with profile `(i,b)` rotated by the
drift implied by the LAST dm target plus the LAST period target; intermediate values do
not matter.  (`hne` is needed only for the `fph` conjunct, see `cube_after_history_data`
and `fph_empty_cube`.) -/
theorem cube_after_history (data : List (List (List Int))) (ni nb : Nat) (hs : Shaped data ni nb)
    (hne : ni = 0 → nb = 0) (ops : List Op) :
    let st := run (init data) ops
    st.fph = lastDm nb ops ∧ st.tph = lastPeriod ni ops ∧ Shaped st.data ni nb ∧
    ∀ i b, i < ni → b < nb →
      (st.data.getD i []).getD b [] =
        rollP ((data.getD i []).getD b []) ((lastDm nb ops).getD b 0 + (lastPeriod ni ops).getD i 0) := by
  intro st
  have hinv : Inv data ni nb st := inv_run (inv_init data ni nb hs) ops
  have hf : st.fph = lastDm nb ops := fph_run data ni nb hs hne ops
  have ht : st.tph = lastPeriod ni ops := tph_run data ni nb hs ops
  refine ⟨hf, ht, hinv.shaped, ?_⟩
  intro i b hi hb
  rw [← hf, ← ht]
  exact hinv.prof i b hi hb

/-- the same without any hypothesis on `ni`: everything except the `fph` conjunct -/
theorem cube_after_history_data (data : List (List (List Int))) (ni nb : Nat)
    (hs : Shaped data ni nb) (ops : List Op) :
    let st := run (init data) ops
    st.tph = lastPeriod ni ops ∧ Shaped st.data ni nb ∧
    ∀ i b, i < ni → b < nb →
      (st.data.getD i []).getD b [] =
        rollP ((data.getD i []).getD b []) ((lastDm nb ops).getD b 0 + (lastPeriod ni ops).getD i 0) := by
  intro st
  have hinv : Inv data ni nb st := inv_run (inv_init data ni nb hs) ops
  refine ⟨tph_run data ni nb hs ops, hinv.shaped, ?_⟩
  intro i b hi hb
  exact (cube_after_history data ni nb hs (by omega) ops).2.2.2 i b hi hb

/-- counterexample to the `fph` conjunct without `hne`: the empty cube declared with one
sub-band has `fph = []`, not `[0]` -/
theorem fph_empty_cube : Shaped [] 0 1 ∧ (run (init []) []).fph ≠ lastDm 1 [] := by decide

/-! ## 3. corollaries -/

/-- two histories with the same last targets give the same cube -/
theorem history_irrelevant (data : List (List (List Int))) (ni nb : Nat) (hs : Shaped data ni nb)
    (ops₁ ops₂ : List Op) (hd : lastDm nb ops₁ = lastDm nb ops₂)
    (hp : lastPeriod ni ops₁ = lastPeriod ni ops₂) :
    (run (init data) ops₁).data = (run (init data) ops₂).data := by
  obtain ⟨_, s1, p1⟩ := cube_after_history_data data ni nb hs ops₁
  obtain ⟨_, s2, p2⟩ := cube_after_history_data data ni nb hs ops₂
  apply shaped_ext s1 s2
  intro i b hi hb
  rw [p1 i b hi hb, p2 i b hi hb, hd, hp]

/-- repeating a DM update changes nothing (whole state, any cube) -/
theorem idempotent_dm (data : List (List (List Int))) (ni nb : Nat) (_hs : Shaped data ni nb)
    (ops : List Op) (d : List Int) :
    run (init data) (ops ++ [.dm d, .dm d]) = run (init data) (ops ++ [.dm d]) := by
  rw [run_append, run_append]
  exact updateDm_idem _ d

/-- repeating a period update changes nothing (whole state, any cube) -/
theorem idempotent_period (data : List (List (List Int))) (ni nb : Nat) (_hs : Shaped data ni nb)
    (ops : List Op) (d : List Int) :
    run (init data) (ops ++ [.period d, .period d]) = run (init data) (ops ++ [.period d]) := by
  rw [run_append, run_append]
  exact updatePeriod_idem _ d

/-- stronger: idempotence from ANY state, well-shaped or not -/
theorem step_idempotent (st : St) (op : Op) : step (step st op) op = step st op := by
  cases op with
  | dm d => exact updateDm_idem st d
  | period d => exact updatePeriod_idem st d

/-- returning to the folding values restores the original cube bit for bit -/
theorem return_restores (data : List (List (List Int))) (ni nb : Nat) (hs : Shaped data ni nb)
    (ops : List Op) (hd : lastDm nb ops = List.replicate nb 0)
    (hp : lastPeriod ni ops = List.replicate ni 0) :
    (run (init data) ops).data = data := by
  obtain ⟨_, s1, p1⟩ := cube_after_history_data data ni nb hs ops
  apply shaped_ext s1 hs
  intro i b hi hb
  rw [p1 i b hi hb, hd, hp, getD_replicate_zero, getD_replicate_zero, Int.add_zero, rollP_zero]

/-- every profile keeps its multiset of bin values -/
theorem multiset_preserved (data : List (List (List Int))) (ni nb : Nat) (hs : Shaped data ni nb)
    (ops : List Op) (i b : Nat) (hi : i < ni) (hb : b < nb) :
    (((run (init data) ops).data.getD i []).getD b []).Perm ((data.getD i []).getD b []) := by
  rw [(cube_after_history_data data ni nb hs ops).2.2 i b hi hb]
  exact rollP_perm _ _

/-- the shape never changes -/
theorem shape_preserved (data : List (List (List Int))) (ni nb : Nat) (hs : Shaped data ni nb)
    (ops : List Op) : Shaped (run (init data) ops).data ni nb :=
  (cube_after_history_data data ni nb hs ops).2.1

/-- DM and period updates commute (on the cube) -/
theorem dm_period_commute (data : List (List (List Int))) (ni nb : Nat) (hs : Shaped data ni nb)
    (ops : List Op) (d e : List Int) :
    (run (init data) (ops ++ [.dm d, .period e])).data
      = (run (init data) (ops ++ [.period e, .dm d])).data := by
  have e1 : ops ++ [Op.dm d, Op.period e] = (ops ++ [Op.dm d]) ++ [Op.period e] := by simp
  have e2 : ops ++ [Op.period e, Op.dm d] = (ops ++ [Op.period e]) ++ [Op.dm d] := by simp
  apply history_irrelevant data ni nb hs
  · rw [e1, e2, lastDm_snoc_period, lastDm_snoc_dm, lastDm_snoc_dm]
  · rw [e1, e2, lastPeriod_snoc_period, lastPeriod_snoc_dm, lastPeriod_snoc_period]

/-- one-shot form: any history ending in the targets `d` (DM) and `e` (period) equals the
two updates applied to the freshly folded cube -/
theorem one_shot (data : List (List (List Int))) (ni nb : Nat) (hs : Shaped data ni nb)
    (ops : List Op) (d e : List Int) (hd : lastDm nb ops = norm nb d)
    (hp : lastPeriod ni ops = norm ni e) :
    (run (init data) ops).data = (run (init data) [.dm d, .period e]).data := by
  apply history_irrelevant data ni nb hs
  · rw [hd, show [Op.dm d, Op.period e] = ([] ++ [Op.dm d]) ++ [Op.period e] from rfl,
      lastDm_snoc_period, lastDm_snoc_dm]
  · rw [hp, show [Op.dm d, Op.period e] = ([] ++ [Op.dm d]) ++ [Op.period e] from rfl,
      lastPeriod_snoc_period]

/-! ## concrete 2 × 2 × 4 cube -/

example : Shaped [[[1, 2, 3, 4], [5, 6, 7, 8]], [[9, 10, 11, 12], [13, 14, 15, 16]]] 2 2 := by decide

/-- a 3-step history equals the one-shot result -/
example :
    run (init [[[1, 2, 3, 4], [5, 6, 7, 8]], [[9, 10, 11, 12], [13, 14, 15, 16]]])
        [.dm [1, 2], .dm [5, -1], .dm [0, 3]]
      = run (init [[[1, 2, 3, 4], [5, 6, 7, 8]], [[9, 10, 11, 12], [13, 14, 15, 16]]]) [.dm [0, 3]] := by
  decide

/-- mixed history: only the last DM and last period targets matter -/
example :
    run (init [[[1, 2, 3, 4], [5, 6, 7, 8]], [[9, 10, 11, 12], [13, 14, 15, 16]]])
        [.dm [1, 2], .period [0, 7], .dm [0, 3], .period [0, 1]]
      = run (init [[[1, 2, 3, 4], [5, 6, 7, 8]], [[9, 10, 11, 12], [13, 14, 15, 16]]])
        [.period [0, 1], .dm [0, 3]] := by
  decide

example :
    (run (init [[[1, 2, 3, 4], [5, 6, 7, 8]], [[9, 10, 11, 12], [13, 14, 15, 16]]])
        [.dm [1, 2], .period [0, 7], .dm [0, 3], .period [0, 1]]).data
      = [[[1, 2, 3, 4], [8, 5, 6, 7]], [[10, 11, 12, 9], [13, 14, 15, 16]]] := by
  decide

/-- `[.dm d, .dm d]` = `[.dm d]` -/
example :
    run (init [[[1, 2, 3, 4], [5, 6, 7, 8]], [[9, 10, 11, 12], [13, 14, 15, 16]]]) [.dm [1, 2], .dm [1, 2]]
      = run (init [[[1, 2, 3, 4], [5, 6, 7, 8]], [[9, 10, 11, 12], [13, 14, 15, 16]]]) [.dm [1, 2]] := by
  decide

/-- `[.dm d, .dm 0s]` restores the original cube (and state) -/
example :
    run (init [[[1, 2, 3, 4], [5, 6, 7, 8]], [[9, 10, 11, 12], [13, 14, 15, 16]]]) [.dm [1, 2], .dm [0, 0]]
      = init [[[1, 2, 3, 4], [5, 6, 7, 8]], [[9, 10, 11, 12], [13, 14, 15, 16]]] := by
  decide

example : rollP [1, 2, 3, 4] 1 = [2, 3, 4, 1] := by decide
example : rollP [1, 2, 3, 4] (-1) = [4, 1, 2, 3] := by decide

end SppModel.FoldedCube

import SppModel.Model.Writer
import SppModel.Props.C04
/-! Helper lemmas for C20 (core Lean only): the states of a streaming writer and the
    arithmetic of reading a truncated file. -/
namespace SppModel.Writer
open SppModel SppModel.Samples

/-! ### states of an operation sequence -/

theorem prefix_apply (file : Bytes) (op : Op) (h : op ≠ .openTrunc) : file <+: apply file op := by
  cases op with
  | openTrunc => exact absurd rfl h
  | write bs => exact List.prefix_append _ _
  | cwrite bs => exact List.prefix_append _ _
  | close => exact List.prefix_refl _

/-- without a re-open the states form a chain: the start is a prefix of every state and every
    state is a prefix of every later one -/
theorem states_pairwise (f : Bytes) (ops : List Op) (h : ∀ op ∈ ops, op ≠ .openTrunc) :
    List.Pairwise (· <+: ·) (f :: states f ops) := by
  induction ops generalizing f with
  | nil => simp [states]
  | cons op ops ih =>
    have ih' := ih (apply f op) (fun o ho => h o (by simp [ho]))
    have hp : f <+: apply f op := prefix_apply f op (h op (by simp))
    rw [states, List.pairwise_cons]
    refine ⟨?_, ih'⟩
    intro s hs
    rcases List.mem_cons.mp hs with rfl | hs
    · exact hp
    · exact List.IsPrefix.trans hp ((List.pairwise_cons.mp ih').1 s hs)

theorem take_flatten_prefix (blocks : List Bytes) (j : Nat) :
    (blocks.take j).flatten <+: blocks.flatten :=
  ⟨(blocks.drop j).flatten, by rw [← List.flatten_append, List.take_append_drop]⟩

/-- the block writes and the close, started from any file content `f` -/
theorem states_cwrites (f : Bytes) (blocks : List Bytes) :
    states f (blocks.map .cwrite ++ [.close])
      = (List.range blocks.length).map (fun j => f ++ (blocks.take (j + 1)).flatten)
          ++ [f ++ blocks.flatten] := by
  induction blocks generalizing f with
  | nil => simp [states, apply]
  | cons b bs ih =>
    simp only [List.map_cons, List.cons_append, states, apply, ih, List.length_cons,
      List.range_succ_eq_map, List.map_map, List.take_succ_cons, List.flatten_cons,
      List.append_assoc]
    simp [Function.comp_def]

theorem states_writerOps_eq (hdr : Bytes) (blocks : List Bytes) :
    states [] (writerOps hdr blocks)
      = [] :: hdr :: ((List.range blocks.length).map (fun j => hdr ++ (blocks.take (j + 1)).flatten)
          ++ [final hdr blocks]) := by
  simp only [writerOps, states, apply, List.nil_append, states_cwrites, final]

/-- the state after the header write and `j` block writes -/
theorem states_writerOps_get (hdr : Bytes) (blocks : List Bytes) (j : Nat) (hj : j ≤ blocks.length) :
    (states [] (writerOps hdr blocks))[j + 1]? = some (hdr ++ (blocks.take j).flatten) := by
  rw [states_writerOps_eq]
  cases j with
  | zero => simp
  | succ j =>
    have hj' : j < blocks.length := hj
    simp only [List.getElem?_cons_succ]
    rw [List.getElem?_append_left (by simp [hj'])]
    simp [hj']

/-! ### sample-count arithmetic for a truncated data section -/

/-- the samples the reader infers from `M` data bytes fit into those `M` bytes -/
theorem infer_bytes_le (M d C : Nat) : inferNsamples M d C * C * d / 8 ≤ M := by
  unfold inferNsamples
  apply Nat.div_le_of_le_mul
  calc 8 * M / d / C * C * d ≤ 8 * M / d * d :=
        Nat.mul_le_mul_right _ (Nat.div_mul_le_self _ _)
    _ ≤ 8 * M := Nat.div_mul_le_self _ _

/-- never more samples than were written -/
theorem infer_le (M d C n : Nat) (hd : 0 < d) (hC : 0 < C) (h : 8 * M ≤ n * C * d) :
    inferNsamples M d C ≤ n := by
  unfold inferNsamples
  have h1 : 8 * M / d ≤ n * C := by
    have := Nat.div_le_div_right (c := d) h
    rwa [Nat.mul_div_cancel _ hd] at this
  have h2 := Nat.div_le_div_right (c := C) h1
  rwa [Nat.mul_div_cancel _ hC] at h2

theorem infer_mono (M M' d C : Nat) (h : M ≤ M') : inferNsamples M d C ≤ inferNsamples M' d C := by
  unfold inferNsamples
  exact Nat.div_le_div_right (Nat.div_le_div_right (Nat.mul_le_mul_left _ h))

theorem whole_of_samples {d C : Nat} (hb : (C * d) % 8 = 0) (k : Nat) : (k * C * d) % 8 = 0 := by
  rw [Nat.mul_assoc]
  exact Nat.mod_eq_zero_of_dvd (Nat.dvd_trans (Nat.dvd_of_mod_eq_zero hb) (Nat.dvd_mul_left _ _))

/-- `truncation_readable` with the sample count spelled out -/
theorem truncation_readable_aux (kvs : List (Sigproc.Bytes × Sigproc.Val))
    (hk : ∀ kv ∈ kvs, Sigproc.EntryWF kv)
    (d C n : Nat) (hd : Depth d) (hC : 0 < C) (hb : (C * d) % 8 = 0)
    (hnb : lookupU32 kvs "nbits" = some d) (hnc : lookupU32 kvs "nchans" = some C)
    (ws : List Nat) (hl : ws.length = n * C) (hr : InRange d ws) (bs : List Nat)
    (he : encodeSamples d ws = .ok bs)
    (L : Nat) (h1 : (Sigproc.encodeHeader kvs).length ≤ L)
    (h2 : L ≤ (Sigproc.encodeHeader kvs ++ bs).length) :
    inferNsamples (L - (Sigproc.encodeHeader kvs).length) d C ≤ n ∧
    readFil ((Sigproc.encodeHeader kvs ++ bs).take L)
      = .ok (d, C, inferNsamples (L - (Sigproc.encodeHeader kvs).length) d C,
          ws.take (inferNsamples (L - (Sigproc.encodeHeader kvs).length) d C * C)) := by
  have hw : WholeBytes d ws := by
    unfold WholeBytes; rw [hl]; exact whole_of_samples hb n
  have hbs : bs = encP d ws := (encP_eq he).symm
  have hlen : bs.length * 8 = n * C * d := by rw [hbs, encP_length hd ws hw, hl]
  have hd0 : ¬ (d = 0 ∨ C = 0) := by have := hd.pos; omega
  rw [List.take_append, List.take_of_length_le h1]
  rw [List.length_append] at h2
  generalize hMd : L - (Sigproc.encodeHeader kvs).length = M
  have hM : M ≤ bs.length := by omega
  have hkn : inferNsamples M d C ≤ n := infer_le M d C n hd.pos hC (by omega)
  have hkb := infer_bytes_le M d C
  refine ⟨hkn, ?_⟩
  unfold readFil
  rw [Sigproc.parse_encode kvs hk (bs.take M)]
  simp only [hnb, hnc, hd0, if_false, List.drop_left, List.length_take, Nat.min_eq_left hM]
  generalize inferNsamples M d C = k at *
  have hkl : k * C ≤ ws.length := by rw [hl]; exact Nat.mul_le_mul_right _ hkn
  obtain ⟨bs', he', hdec⟩ := decode_prefix d hd ws hr hw (k * C) hkl (whole_of_samples hb k)
  rw [he] at he'
  cases he'
  rw [List.take_take, Nat.min_eq_left hkb, hdec]

/-! ### block-wise encoding -/

theorem encP_flatten {d : Nat} (hd : Depth d) (wss : List (List Nat))
    (hw : ∀ w ∈ wss, WholeBytes d w) : (wss.map (encP d)).flatten = encP d wss.flatten := by
  induction wss with
  | nil => simp [encP_nil hd]
  | cons w wss ih =>
    simp only [List.map_cons, List.flatten_cons]
    rw [ih (fun x hx => hw x (by simp [hx])), encP_append hd _ _ (hw w (by simp))]

theorem encode_of_cwrite {d : Nat} {dt : DType} {w : List Nat} {b : Bytes}
    (h : cwrite d dt w = .ok b) : encodeSamples d w = .ok b := by
  unfold cwrite at h
  split at h
  · split at h
    · exact h
    · cases h
  · exact h

/-- `wss.map (encodeSamples d) = blocks.map .ok`: block `i` is the encoding of sample list `i` -/
theorem encode_blocks_eq_map {d : Nat} {wss : List (List Nat)} {blocks : List Bytes}
    (h : wss.map (encodeSamples d) = blocks.map Except.ok) :
    blocks = wss.map (encP d) := by
  induction wss generalizing blocks with
  | nil => cases blocks with
    | nil => rfl
    | cons b bs => simp at h
  | cons w wss ih => cases blocks with
    | nil => simp at h
    | cons b bs =>
      simp only [List.map_cons, List.cons.injEq] at h
      rw [List.map_cons, ← ih h.2, encP_eq h.1]

theorem encode_blocks_of_cwrite {d : Nat} {dt : DType} {wss : List (List Nat)} {blocks : List Bytes}
    (h : wss.map (cwrite d dt) = blocks.map Except.ok) :
    wss.map (encodeSamples d) = blocks.map Except.ok := by
  induction wss generalizing blocks with
  | nil => cases blocks with
    | nil => rfl
    | cons b bs => simp at h
  | cons w wss ih => cases blocks with
    | nil => simp at h
    | cons b bs =>
      simp only [List.map_cons, List.cons.injEq] at h
      rw [List.map_cons, List.map_cons, ih h.2, encode_of_cwrite h.1]

theorem flatten_length_dvd (C : Nat) (wss : List (List Nat)) (h : ∀ w ∈ wss, w.length % C = 0) :
    wss.flatten.length % C = 0 := by
  induction wss with
  | nil => simp
  | cons w wss ih =>
    have h1 := h w (by simp)
    have h2 := ih (fun x hx => h x (by simp [hx]))
    simp only [List.flatten_cons, List.length_append]
    rw [Nat.add_mod, h1, h2]; simp

theorem wholeBytes_of_samples {d C : Nat} (hb : (C * d) % 8 = 0) {w : List Nat}
    (h : w.length % C = 0) : WholeBytes d w := by
  unfold WholeBytes
  obtain ⟨q, hq⟩ := Nat.dvd_of_mod_eq_zero h
  rw [hq, Nat.mul_comm C q]
  exact whole_of_samples hb q

/-! ### a concrete file for the examples: 8 bits, 2 channels, 3 samples written as blocks of 1 and 2 samples -/

def exKvs : List (Sigproc.Bytes × Sigproc.Val) :=
  [(Sigproc.ascii "nbits", .u32 8), (Sigproc.ascii "nchans", .u32 2)]
def exHdr : Bytes := Sigproc.encodeHeader exKvs
def exSamples : List (List Nat) := [[0, 255], [17, 200, 3, 128]]
def exBlocks : List Bytes := [[0, 255], [17, 200, 3, 128]]
def exFile : Bytes := final exHdr exBlocks

end SppModel.Writer

import SppModel.Model.Plan
/-! Helper lemmas for C01 (core Lean only). -/
namespace SppModel.Plan
open SppModel

theorem range'_append' (a m n : Nat) : List.range' a m ++ List.range' (a + m) n = List.range' a (m + n) := by
  simp [List.range'_append_1]

/-- consecutive `k`-trimmed full blocks concatenate to one range -/
theorem full_chain (s st k g' : Nat) (hk : k + st = g') (m j : Nat) :
    ((List.range' j m).map (fun i => List.range' (s + i * st + k) (g' - k))).flatten
      = List.range' (s + j * st + k) (m * st) := by
  induction m generalizing j with
  | zero => simp
  | succ m ih =>
    rw [List.range'_succ, List.map_cons, List.flatten_cons, ih (j + 1)]
    have : g' - k = st := by omega
    rw [this]
    have e : s + (j + 1) * st + k = (s + j * st + k) + st := by rw [Nat.add_mul]; omega
    rw [e, range'_append']
    congr 1
    rw [Nat.add_mul]; omega

/-- the explicit block list of an accepted plan -/
def expected (g s n k : Nat) : List Blk :=
  let st := geff g n - k
  (List.range' 0 (nreads g n k)).map (fun i => (⟨i, s + i * st, geff g n⟩ : Blk))
    ++ (if lastread g n k ≠ 0 then [⟨nreads g n k, s + nreads g n k * st, lastread g n k⟩] else [])

/-- running `m` full blocks that all fit -/
theorem runLoop_full (N s st k g' : Nat) (hk : k + st = g') (hst : 0 < st) (tail : List Entry) (m j : Nat)
    (hfit : m = 0 ∨ s + (j + m - 1) * st + g' ≤ N) :
    runLoop N (s + j * st) ((List.range' j m).map (fun i => ((i, g', k) : Entry)) ++ tail)
      = ⟨(List.range' j m).map (fun i => (⟨i, s + i * st, g'⟩ : Blk))
            ++ (runLoop N (s + (j + m) * st) tail).yielded,
         (runLoop N (s + (j + m) * st) tail).err⟩ := by
  induction m generalizing j with
  | zero => simp
  | succ m ih =>
    have hfit' : s + (j + m) * st + g' ≤ N := by
      rcases hfit with h | h
      · omega
      · have : j + (m + 1) - 1 = j + m := by omega
        rwa [this] at h
    have hmono : s + j * st + g' ≤ s + (j + m) * st + g' := by
      have : j * st ≤ (j + m) * st := Nat.mul_le_mul_right _ (by omega)
      omega
    rw [List.range'_succ, List.map_cons, List.cons_append, runLoop]
    have c1 : ¬ (s + j * st + g' > N) := by omega
    have c2 : ¬ (k ≠ 0 ∧ (s + j * st + g' < k ∨ s + j * st + g' - k ≥ N)) := by
      intro ⟨h0, h⟩; omega
    simp only [c1, c2, ↓reduceIte]
    have e : s + j * st + g' - k = s + (j + 1) * st := by rw [Nat.add_mul]; omega
    rw [e, ih (j + 1) (by
      rcases Nat.eq_zero_or_pos m with h | h
      · left; exact h
      · right
        have : j + 1 + m - 1 = j + m := by omega
        rw [this]; exact hfit')]
    have e2 : j + 1 + m = j + (m + 1) := by omega
    rw [e2, List.map_cons, List.cons_append]

/-- the multi-block formulas (range longer than one gulp) -/
def nreadsM (g n k : Nat) : Nat :=
  let st := geff g n - k
  if n % st < k then n / st - 1 else n / st
def lastreadM (g n k : Nat) : Nat :=
  let st := geff g n - k
  if n % st < k then n - (n / st - 1) * st else n % st

theorem nreads_multi (g n k : Nat) (h : geff g n ≠ n) : nreads g n k = nreadsM g n k := by
  simp [nreads, nreadsM, h]
theorem lastread_multi (g n k : Nat) (h : geff g n ≠ n) : lastread g n k = lastreadM g n k := by
  simp [lastread, lastreadM, h]
theorem nreads_single (g n k : Nat) (h : geff g n = n) : nreads g n k = 0 := by simp [nreads, h]
theorem lastread_single (g n k : Nat) (h : geff g n = n) : lastread g n k = n := by simp [lastread, h]

/-- arithmetic of an accepted plan -/
structure Arith (g n k : Nat) : Prop where
  hk : k < geff g n
  hlast : k ≤ lastread g n k
  total : nreads g n k * (geff g n - k) + lastread g n k = n
  lastle : lastread g n k ≤ geff g n
  nr : nreads g n k = 0 → lastread g n k = n

private theorem arithM (g n k : Nat) (hk : k < geff g n) (_hl : ¬ lastreadM g n k < k) :
    nreadsM g n k * (geff g n - k) + lastreadM g n k = n ∧ lastreadM g n k ≤ geff g n ∧ 1 ≤ nreadsM g n k := by
  have hgn : geff g n ≤ n := Nat.min_le_left _ _
  have hst : 0 < geff g n - k := by omega
  have hdm := Nat.div_add_mod n (geff g n - k)
  have hml := Nat.mod_lt n hst
  have hq : 1 ≤ n / (geff g n - k) := by
    apply (Nat.one_le_div_iff hst).mpr; omega
  refine ⟨?_, ?_, ?_⟩
  all_goals (unfold nreadsM lastreadM at *; simp only at *)
  · split
    · rename_i hr
      have hle : (n / (geff g n - k) - 1) * (geff g n - k) ≤ n := by
        calc (n / (geff g n - k) - 1) * (geff g n - k)
            ≤ (n / (geff g n - k)) * (geff g n - k) := Nat.mul_le_mul_right _ (by omega)
          _ ≤ n := Nat.div_mul_le_self _ _
      omega
    · rw [Nat.mul_comm]; exact hdm
  · split
    · rename_i hr
      have e : (n / (geff g n - k) - 1) * (geff g n - k)
          = (n / (geff g n - k)) * (geff g n - k) - (geff g n - k) := by
        rw [Nat.sub_mul, Nat.one_mul]
      have h2 : (geff g n - k) * (n / (geff g n - k)) = (n / (geff g n - k)) * (geff g n - k) := Nat.mul_comm _ _
      have h3 : (geff g n - k) ≤ (n / (geff g n - k)) * (geff g n - k) := Nat.le_mul_of_pos_left _ (by omega)
      rw [e]; omega
    · omega
  · split
    · rename_i hr
      rcases Nat.lt_or_ge 1 (n / (geff g n - k)) with h | h
      · omega
      · have hq1 : n / (geff g n - k) = 1 := by omega
        rw [hq1] at hdm; omega
    · exact hq

theorem arith_of (g n k : Nat) (hk : k < geff g n) (hl : ¬ lastread g n k < k) : Arith g n k := by
  by_cases hs : geff g n = n
  · have h1 := nreads_single g n k hs
    have h2 := lastread_single g n k hs
    exact ⟨hk, by omega, by rw [h1, h2]; simp, by omega, fun _ => h2⟩
  · have h1 := nreads_multi g n k hs
    have h2 := lastread_multi g n k hs
    rw [h2] at hl
    obtain ⟨a, b, c⟩ := arithM g n k hk hl
    exact ⟨hk, by omega, by rw [h1, h2]; exact a, by omega, fun h0 => by omega⟩

end SppModel.Plan

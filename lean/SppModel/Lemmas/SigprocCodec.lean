import SppModel.Frozen.SigprocCodec
import SppModel.Model.SigprocHeader
import SppModel.Lemmas.SigprocHeader
/-! Helper lemmas for the source tie of the SIGPROC header codec (`Props/Tie/SigprocCodec.lean`):
the translated functions of `Frozen/SigprocCodec.lean` step by step against the hand model. -/
namespace SppModel.CodecLemmas
open SppModel SppModel.CodecPrims SppModel.Frozen.SigprocCodec

/-! ### the combinators -/

/- proved by `unfold` rather than `rfl` on purpose: `simp` would otherwise use them definitionally and leave the
kernel to re-check the step by unfolding, which sends it into `String` equality inside `structPack` -/
@[simp] theorem bindE_ok {α β : Type} (a : α) (f : α → Except String β) : bindE (.ok a) f = f a := by
  unfold bindE; rfl
@[simp] theorem bindE_error {α β : Type} (e : String) (f : α → Except String β) :
    bindE (.error e) f = .error e := by unfold bindE; rfl
@[simp] theorem optCases_none {α β : Type} (n : β) (s : α → β) : optCases none n s = n := by
  unfold optCases; rfl
@[simp] theorem optCases_some {α β : Type} (a : α) (n : β) (s : α → β) : optCases (some a) n s = s a := by
  unfold optCases; rfl
@[simp] theorem catchAs_ok {α : Type} (a : α) (x y : String) : catchAs (.ok a : Except String α) x y = .ok a := by
  unfold catchAs; rfl
theorem catchAs_error {α : Type} (e x y : String) :
    catchAs (.error e : Except String α) x y = if e = x then .error y else .error e := by
  unfold catchAs; rfl

theorem ascii_eq : Sigproc.ascii = CodecPrims.ascii := rfl

/-! ### correspondence of values (the same definitions as in the tie file) -/

def fmtName : Sigproc.Fmt → String
  | .I => "I" | .d => "d" | .b => "b" | .str => "str"

def valOf : Sigproc.Val → PyVal
  | .u32 n => .int n
  | .f64 bs => .dbl bs
  | .i8 b => .int (if b < 128 then (b : Int) else (b : Int) - 256)
  | .str s => .str s

def dictOf (kvs : List (Sigproc.Bytes × Sigproc.Val)) : Dict := kvs.map (fun kv => (kv.1, valOf kv.2))

/-! ### the key table -/

theorem headerKeys_eq :
    CodecPrims.headerKeys = Sigproc.keyTable.map (fun p => (p.1, fmtName p.2)) := by decide +kernel

theorem keyFmt_is_model (k : Bytes) :
    CodecPrims.keyFmt k = (match Sigproc.keyFmt k with
                           | some f => .ok (fmtName f)
                           | none => .error "KeyError") := by
  unfold CodecPrims.keyFmt Sigproc.keyFmt
  rw [headerKeys_eq, List.find?_map]
  have : ((fun kf : Bytes × String => kf.1 == k) ∘ fun p : Sigproc.Bytes × Sigproc.Fmt => (p.1, fmtName p.2))
      = (fun p => p.1 == k) := rfl
  rw [this]
  cases Sigproc.keyTable.find? (fun p => p.1 == k) <;> rfl

theorem isKey_is_model (k : Bytes) : CodecPrims.isKey k = (Sigproc.keyFmt k).isSome := by
  unfold CodecPrims.isKey Sigproc.keyFmt
  rw [headerKeys_eq, List.any_map, Option.isSome_map, Bool.eq_iff_iff, List.find?_isSome, List.any_eq_true]
  rfl

/-! ### encoding -/

theorem le32_is_leBytes (n : Nat) : leBytes 4 n = Sigproc.le32 n := by
  simp only [leBytes, Sigproc.le32, List.cons.injEq, and_true, true_and]
  omega

theorem structPack_I (n : Nat) (h : n < 2 ^ 32) : structPack "I" (.int (n : Int)) = .ok (Sigproc.le32 n) := by
  have h1 : (0 : Int) ≤ (n : Int) ∧ (n : Int) < 4294967296 := by omega
  simp only [structPack, if_true, h1, and_self, Int.toNat_natCast, le32_is_leBytes]

theorem encode_key_none (k : Bytes) (fmt : String) (hk : k.length < 2 ^ 32) :
    encode_key k none fmt = .ok (Sigproc.encStr k) := by
  simp only [encode_key, optCases_none, structPack_I _ hk, bindE_ok, Sigproc.encStr]

/-- what `encode_key` needs of a value (a double may have any length: `struct.pack` is handed a float) -/
def WFe : Sigproc.Val → Prop
  | .u32 n => n < 2 ^ 32
  | .f64 _ => True
  | .i8 b => b < 256
  | .str s => s.length < 2 ^ 32

theorem encode_key_is_model (k : Bytes) (v : Sigproc.Val) (hk : k.length < 2 ^ 32) (hv : WFe v) :
    encode_key k (some (valOf v)) (fmtName v.fmt) = .ok (Sigproc.encodeKey k v) := by
  cases v with
  | u32 n =>
    have h1 : ¬ ("I" = "str") := by decide
    simp only [encode_key, optCases_some, valOf, fmtName, Sigproc.Val.fmt, h1, false_and, if_false,
      structPack_I _ hk, structPack_I _ hv, bindE_ok, Sigproc.encodeKey, Sigproc.encStr, Sigproc.encVal]
  | f64 bs =>
    have h1 : ¬ ("d" = "str") := by decide
    have h2 : ¬ ("d" = "I") := by decide
    simp only [encode_key, optCases_some, valOf, fmtName, Sigproc.Val.fmt, h1, false_and, if_false,
      structPack_I _ hk, bindE_ok, Sigproc.encodeKey, Sigproc.encStr, Sigproc.encVal]
    simp only [structPack, h2, if_false, if_true, bindE_ok]
  | i8 b =>
    have hb : b < 256 := hv
    have h1 : ¬ ("b" = "str") := by decide
    have h2 : ¬ ("b" = "I") := by decide
    have h3 : ¬ ("b" = "d") := by decide
    simp only [encode_key, optCases_some, valOf, fmtName, Sigproc.Val.fmt, h1, false_and, if_false,
      structPack_I _ hk, bindE_ok, Sigproc.encodeKey, Sigproc.encStr, Sigproc.encVal]
    simp only [structPack, h2, h3, if_false, if_true]
    split
    · have hr : (-128 : Int) ≤ (b : Int) ∧ (b : Int) < 128 := by omega
      have hm : ((b : Int) % 256).toNat = b := by omega
      simp only [hr, and_self, if_true, hm, bindE_ok]
    · have hr : (-128 : Int) ≤ (b : Int) - 256 ∧ (b : Int) - 256 < 128 := by omega
      have hm : (((b : Int) - 256) % 256).toNat = b := by omega
      simp only [hr, and_self, if_true, hm, bindE_ok]
  | str s =>
    have hs : s.length < 2 ^ 32 := hv
    simp only [encode_key, optCases_some, valOf, fmtName, Sigproc.Val.fmt, PyVal.isStr, and_self, if_true,
      PyVal.strBytes, structPack_I _ hk, structPack_I _ hs, bindE_ok, Sigproc.encodeKey, Sigproc.encStr,
      Sigproc.encVal, List.append_assoc]

/-! ### `encode_header`: the loop over the dict items -/

/-- what one iteration of the `encode_header` loop appends for an item -/
def encItem (k : Bytes) (pv : PyVal) : Except String Bytes :=
  if isKey k = false then .ok [] else bindE (keyFmt k) (fun t2 => encode_key k (some pv) t2)

/-- the bytes the loop of `encode_header` appends for a whole dict (first failing item fails) -/
def encDict : Dict → Except String Bytes
  | [] => .ok []
  | (k, pv) :: r => bindE (encItem k pv) (fun b => bindE (encDict r) (fun bs => .ok (b ++ bs)))

/-- the body of the loop of `encode_header`, verbatim -/
def hdrBody (key : Bytes) (value : PyVal) (hdr_encoded : Bytes) : Except String Bytes :=
  if isKey key = false then
    .ok hdr_encoded
  else
    bindE (keyFmt key) (fun t2 =>
    bindE (encode_key key (some value) t2) (fun t3 =>
    let hdr_encoded : Bytes := (hdr_encoded ++ t3)
    .ok hdr_encoded))

theorem encode_header_eq (d : Dict) :
    encode_header d =
      bindE (encode_key (ascii "HEADER_START") none "str") (fun t1 =>
      bindE (forItems d t1 hdrBody) (fun hdr_encoded =>
      bindE (encode_key (ascii "HEADER_END") none "str") (fun t4 => .ok (hdr_encoded ++ t4)))) := rfl

theorem hdrBody_eq (k : Bytes) (pv : PyVal) (acc : Bytes) :
    hdrBody k pv acc = bindE (encItem k pv) (fun b => .ok (acc ++ b)) := by
  unfold hdrBody encItem
  split
  · simp only [bindE_ok, List.append_nil]
  · cases keyFmt k with
    | error e => simp only [bindE_error]
    | ok t2 => simp only [bindE_ok]

theorem forItems_hdrBody (d : Dict) (acc : Bytes) :
    forItems d acc hdrBody = bindE (encDict d) (fun bs => .ok (acc ++ bs)) := by
  induction d generalizing acc with
  | nil => simp only [forItems, encDict, bindE_ok, List.append_nil]
  | cons kv d ih =>
    obtain ⟨k, pv⟩ := kv
    simp only [forItems, encDict, hdrBody_eq]
    cases encItem k pv with
    | error e => simp only [bindE_error]
    | ok b =>
      simp only [bindE_ok, ih]
      cases encDict d with
      | error e => simp only [bindE_error]
      | ok bs => simp only [bindE_ok, List.append_assoc]

theorem ascii_START_length : (ascii "HEADER_START").length < 2 ^ 32 := by
  rw [← ascii_eq]; exact (Sigproc.HEADER_START_length ▸ (by decide) : Sigproc.HEADER_START.length < 2 ^ 32)

theorem ascii_END_length : (ascii "HEADER_END").length < 2 ^ 32 := by
  rw [← ascii_eq]; exact (Sigproc.HEADER_END_length ▸ (by decide) : Sigproc.HEADER_END.length < 2 ^ 32)

theorem encode_header_encDict (d : Dict) :
    encode_header d = bindE (encDict d) (fun bs =>
      .ok (Sigproc.encStr Sigproc.HEADER_START ++ bs ++ Sigproc.encStr Sigproc.HEADER_END)) := by
  rw [encode_header_eq, encode_key_none _ _ ascii_START_length, encode_key_none _ _ ascii_END_length]
  simp only [bindE_ok, forItems_hdrBody]
  cases encDict d with
  | error e => simp only [bindE_error]
  | ok bs => simp only [bindE_ok, List.append_assoc]; rfl

theorem encDict_append (a b : Dict) :
    encDict (a ++ b) = bindE (encDict a) (fun x => bindE (encDict b) (fun y => .ok (x ++ y))) := by
  induction a with
  | nil =>
    simp only [List.nil_append, encDict, bindE_ok]
    cases encDict b with
    | error e => simp only [bindE_error]
    | ok y => simp only [bindE_ok]
  | cons kv a ih =>
    obtain ⟨k, pv⟩ := kv
    simp only [List.cons_append, encDict, ih]
    cases encItem k pv with
    | error e => simp only [bindE_error]
    | ok x0 =>
      simp only [bindE_ok]
      cases encDict a with
      | error e => simp only [bindE_error]
      | ok x =>
        simp only [bindE_ok]
        cases encDict b with
        | error e => simp only [bindE_error]
        | ok y => simp only [bindE_ok, List.append_assoc]

/-- an entry `encode_header` can write: see `Typed` in the tie file (with `WFe` for the value) -/
def TypedE (kv : Sigproc.Bytes × Sigproc.Val) : Prop :=
  kv.1.length < 2 ^ 32 ∧ WFe kv.2 ∧ (Sigproc.keyFmt kv.1 = some kv.2.fmt ∨ Sigproc.keyFmt kv.1 = none)

theorem encItem_typed (k : Bytes) (v : Sigproc.Val) (h : TypedE (k, v)) :
    encItem k (valOf v) = .ok (if (Sigproc.keyFmt k).isSome then Sigproc.encodeKey k v else []) := by
  obtain ⟨hk, hv, hf⟩ := h
  unfold encItem
  rw [isKey_is_model, keyFmt_is_model]
  rcases hf with hf | hf
  · simp only at hf
    simp only [hf, Option.isSome_some, Bool.true_eq_false, if_false, bindE_ok, if_true]
    exact encode_key_is_model k v hk hv
  · simp only at hf
    simp only [hf, Option.isSome_none, if_true, Bool.false_eq_true, if_false]

theorem encDict_dictOf (kvs : List (Sigproc.Bytes × Sigproc.Val)) (h : ∀ kv ∈ kvs, TypedE kv) :
    encDict (dictOf kvs) = .ok (Sigproc.encodeBody kvs) := by
  induction kvs with
  | nil => rfl
  | cons kv kvs ih =>
    obtain ⟨k, v⟩ := kv
    have h1 := encItem_typed k v (h _ (List.mem_cons_self ..))
    have h2 := ih (fun x hx => h x (List.mem_cons_of_mem _ hx))
    unfold dictOf at h2 ⊢
    simp only [List.map_cons, encDict, h1, h2, bindE_ok, Sigproc.encodeBody]

theorem encDict_nonkeys (d : Dict) (h : ∀ e ∈ d, isKey e.1 = false) : encDict d = .ok [] := by
  induction d with
  | nil => rfl
  | cons kv d ih =>
    obtain ⟨k, pv⟩ := kv
    have h1 : isKey k = false := h (k, pv) (List.mem_cons_self ..)
    have h2 := ih (fun x hx => h x (List.mem_cons_of_mem _ hx))
    simp only [encDict, encItem, h1, if_true, h2, bindE_ok, List.append_nil]

/-- one failing item (every item under `key` is that one) makes the whole loop fail with its error -/
theorem encDict_error (d : Dict) (key : Bytes) (pv : PyVal) (e : String)
    (hsame : ∀ kv ∈ d, kv.1 = key → kv = (key, pv))
    (hother : ∀ kv ∈ d, kv.1 ≠ key → ∃ b, encItem kv.1 kv.2 = .ok b)
    (herr : encItem key pv = .error e) (hmem : (key, pv) ∈ d) : encDict d = .error e := by
  induction d with
  | nil => cases hmem
  | cons kv d ih =>
    by_cases hk : kv.1 = key
    · have := hsame kv (List.mem_cons_self ..) hk
      subst this
      simp only [encDict, herr, bindE_error]
    · obtain ⟨b, hb⟩ := hother kv (List.mem_cons_self ..) hk
      have hmem' : (key, pv) ∈ d := by
        rcases List.mem_cons.1 hmem with h | h
        · exact absurd (by rw [← h]) hk
        · exact h
      have := ih (fun x hx => hsame x (List.mem_cons_of_mem _ hx))
        (fun x hx => hother x (List.mem_cons_of_mem _ hx)) hmem'
      obtain ⟨k, v⟩ := kv
      simp only [encDict, hb, bindE_ok, this, bindE_error]

/-- `encode_header` never raises `ValueError` -/
theorem encItem_error_ne (k : Bytes) (pv : PyVal) (e : String) (h : encItem k pv = .error e) :
    e = "struct.error" ∨ e = "KeyError" := by
  unfold encItem at h
  split at h
  · cases h
  · unfold CodecPrims.keyFmt at h
    split at h
    · simp only [bindE_ok] at h
      rename_i kf _
      unfold encode_key at h
      simp only [optCases_some] at h
      have hI : ∀ (z : Int) (e : String), structPack "I" (.int z) = .error e → e = "struct.error" := by
        intro z e hz
        unfold structPack at hz
        simp only [if_true] at hz
        split at hz
        · cases hz
        · cases hz; rfl
      have hA : ∀ (f : String) (v : PyVal) (e : String), structPack f v = .error e → e = "struct.error" := by
        intro f v e hz
        unfold structPack at hz
        repeat' split at hz
        all_goals first | (cases hz; done) | (cases hz; rfl)
      split at h
      · cases h1 : structPack "I" (.int ((k.length : Nat) : Int)) with
        | error e1 => rw [h1] at h; simp only [bindE_error] at h; cases h; exact .inl (hI _ _ h1)
        | ok a =>
          rw [h1] at h; simp only [bindE_ok] at h
          cases h2 : structPack "I" (.int ((pv.strBytes.length : Nat) : Int)) with
          | error e1 => rw [h2] at h; simp only [bindE_error] at h; cases h; exact .inl (hI _ _ h2)
          | ok a2 => rw [h2] at h; simp only [bindE_ok] at h; cases h
      · cases h1 : structPack "I" (.int ((k.length : Nat) : Int)) with
        | error e1 => rw [h1] at h; simp only [bindE_error] at h; cases h; exact .inl (hI _ _ h1)
        | ok a =>
          rw [h1] at h; simp only [bindE_ok] at h
          cases h2 : structPack kf.2 pv with
          | error e1 => rw [h2] at h; simp only [bindE_error] at h; cases h; exact .inl (hA _ _ _ h2)
          | ok a2 => rw [h2] at h; simp only [bindE_ok] at h; cases h
    · simp only [bindE_error] at h
      cases h; exact .inr rfl

/-! ### reading -/

/-- reading exactly the bytes `a` that come next -/
theorem read_exact (fp : Fp) (a r : Bytes) (h : fp.data.drop fp.pos = a ++ r) :
    fp.read a.length = (a, ⟨fp.data, fp.pos + a.length⟩) ∧ fp.data.drop (fp.pos + a.length) = r := by
  unfold Fp.read
  simp only [h, List.take_left', ← List.drop_drop, List.drop_left', and_self]

theorem calcsize_I : calcsize "I" = .ok 4 := by simp only [calcsize, if_true]

theorem structUnpack_I (b0 b1 b2 b3 : Nat) :
    structUnpack "I" [b0, b1, b2, b3] = .ok (.int ((b0 + 256 * b1 + 65536 * b2 + 16777216 * b3 : Nat) : Int)) := by
  simp only [structUnpack, if_true, List.length_cons, List.length_nil, leVal]
  congr 2
  omega

theorem asSize_nat (n : Nat) : PyVal.asSize (.int (n : Int)) = .ok n := by
  simp only [PyVal.asSize, Int.natCast_nonneg, if_true, Int.toNat_natCast]

/-- `_read_string` at a position where the model's `rdStr` succeeds -/
theorem read_string_at (fp : Fp) (bs s rest : Bytes) (hat : fp.data.drop fp.pos = bs)
    (h : Sigproc.rdStr bs = some (s, rest)) :
    _read_string fp = .ok (s, ⟨fp.data, fp.pos + 4 + s.length⟩) ∧
      fp.data.drop (fp.pos + 4 + s.length) = rest ∧ fp.pos + 4 + s.length ≤ fp.data.length := by
  rcases bs with _ | ⟨b0, _ | ⟨b1, _ | ⟨b2, _ | ⟨b3, r⟩⟩⟩⟩
  any_goals (simp [Sigproc.rdStr, Sigproc.rd32] at h; done)
  simp only [Sigproc.rdStr, Sigproc.rd32] at h
  split at h
  · cases h
  · rename_i hlen
    simp only [Option.some.injEq, Prod.mk.injEq] at h
    obtain ⟨hs, hr⟩ := h
    have hsl : s.length = b0 + 256 * b1 + 65536 * b2 + 16777216 * b3 := by
      rw [← hs, List.length_take]; omega
    have h4 := read_exact fp [b0, b1, b2, b3] r hat
    obtain ⟨h4a, h4b⟩ := h4
    have hsr : r = s ++ rest := by rw [← hs, ← hr, List.take_append_drop]
    have hn := read_exact ⟨fp.data, fp.pos + 4⟩ s rest (by simpa using h4b.trans hsr)
    obtain ⟨hna, hnb⟩ := hn
    have hlen' : (fp.data.drop fp.pos).length = 4 + (s.length + rest.length) := by
      rw [hat, hsr]; simp only [List.length_cons, List.length_append]; omega
    rw [List.length_drop] at hlen'
    refine ⟨?_, hnb, by omega⟩
    unfold _read_string
    simp only [List.length_cons, List.length_nil] at h4a
    simp only [calcsize_I, bindE_ok, h4a, structUnpack_I, asSize_nat, ← hsl, hna]

/-! ### `parse_header`: the key/value loop -/

/-- the value branch of the loop of `parse_header`, verbatim -/
def readValue (fp : Fp) (header : Dict) (key : Bytes) (key_fmt : String) : Except String (Fp × Dict) :=
  if key_fmt = "str" then
    bindE (_read_string fp) (fun r4 =>
    let t3 := r4.1
    let fp := r4.2
    let header : Dict := Dict.set header key (PyVal.str t3)
    .ok (fp, header))
  else
    bindE (calcsize key_fmt) (fun t5 =>
    let r8 := fp.read t5
    let t6 := r8.1
    let fp := r8.2
    bindE (structUnpack key_fmt t6) (fun t7 =>
    let header : Dict := Dict.set header key t7
    .ok (fp, header)))

/-- the body of the loop of `parse_header`, verbatim -/
def loopBody (st : Fp × Bytes × Dict) : Except String (Bool × (Fp × Bytes × Dict)) :=
  let fp := st.1
  let header := st.2.2
  bindE (_read_string fp) (fun r10 =>
  let t1 := r10.1
  let fp := r10.2
  let key : Bytes := t1
  if key = (ascii "HEADER_END") then
    .ok (false, (fp, key, header))
  else
    bindE (keyFmt key) (fun t2 =>
    let key_fmt : String := t2
    bindE (readValue fp header key key_fmt) (fun r9 =>
    let fp := r9.1
    let header := r9.2
    .ok (true, (fp, key, header)))))

/-- what `parse_header` does after the loop, verbatim, with the six key names as parameters -/
def parseTailG (kH kF kD kS kB kC : Bytes) (fp : Fp) (header : Dict) : Except String Dict :=
  let header : Dict := Dict.set header kH (PyVal.int ((fp.pos : Nat) : Int))
  let fp : Fp := { fp with pos := fp.data.length }
  let header : Dict := Dict.set header kF (PyVal.int ((fp.pos : Nat) : Int))
  bindE (Dict.get header kF) (fun t11 =>
  bindE (PyVal.toInt t11) (fun t12 =>
  bindE (Dict.get header kH) (fun t13 =>
  bindE (PyVal.toInt t13) (fun t14 =>
  let header : Dict := Dict.set header kD (PyVal.int (t12 - t14))
  bindE (Dict.get header kD) (fun t15 =>
  bindE (PyVal.toInt t15) (fun t16 =>
  bindE (Dict.get header kB) (fun t17 =>
  bindE (PyVal.toInt t17) (fun t18 =>
  bindE (floorDiv ((8 : Int) * t16) t18) (fun t19 =>
  bindE (Dict.get header kC) (fun t20 =>
  bindE (PyVal.toInt t20) (fun t21 =>
  bindE (floorDiv t19 t21) (fun t22 =>
  let header : Dict := Dict.set header kS (PyVal.int t22)
  .ok header))))))))))))

theorem parse_header_eq (file : Bytes) :
    parse_header file =
      bindE (catchAs (_read_string ⟨file, 0⟩) "struct.error" "OSError") (fun r24 =>
      if r24.1 ≠ (ascii "HEADER_START") then .error "OSError" else
      bindE (whileFuel (r24.2.data.length + 1) (r24.2, r24.1, []) loopBody) (fun r23 =>
      parseTailG (ascii "hdrlen") (ascii "filelen") (ascii "datalen") (ascii "nsamples") (ascii "nbits")
        (ascii "nchans") r23.1 r23.2.2)) := rfl

/-! ### dicts -/

theorem any_key_false (d : Dict) (k : Bytes) (h : ∀ e ∈ d, e.1 ≠ k) : d.any (fun kv => kv.1 == k) = false := by
  rw [List.any_eq_false]
  intro e he
  simpa using h e he

theorem find_key_none (d : Dict) (k : Bytes) (h : ∀ e ∈ d, e.1 ≠ k) : d.find? (fun kv => kv.1 == k) = none := by
  rw [List.find?_eq_none]
  intro e he
  simpa using h e he

theorem set_absent (d : Dict) (k : Bytes) (v : PyVal) (h : ∀ e ∈ d, e.1 ≠ k) : Dict.set d k v = d ++ [(k, v)] := by
  unfold Dict.set
  rw [any_key_false d k h]
  rfl

theorem get_append_absent (d e : Dict) (k : Bytes) (h : ∀ x ∈ d, x.1 ≠ k) : Dict.get (d ++ e) k = Dict.get e k := by
  unfold Dict.get
  rw [List.find?_append, find_key_none d k h, Option.none_or]

theorem get_append_present (d e : Dict) (k : Bytes) (v : PyVal) (h : Dict.get d k = .ok v) :
    Dict.get (d ++ e) k = .ok v := by
  unfold Dict.get at h ⊢
  rw [List.find?_append]
  cases hf : d.find? (fun kv => kv.1 == k) with
  | none => rw [hf] at h; cases h
  | some x => rw [hf] at h; simpa using h

theorem get_cons_self (d : Dict) (k : Bytes) (v : PyVal) : Dict.get ((k, v) :: d) k = .ok v := by
  simp only [Dict.get, List.find?_cons, beq_self_eq_true]

theorem get_cons_ne (d : Dict) (k k' : Bytes) (v : PyVal) (h : k' ≠ k) : Dict.get ((k', v) :: d) k = Dict.get d k := by
  have : (k' == k) = false := by simpa using h
  simp only [Dict.get, List.find?_cons, this]

/-- with no repeated key, an entry of the list is what `d[k]` finds -/
theorem get_of_mem (kvs : List (Sigproc.Bytes × Sigproc.Val)) (hnd : (kvs.map (·.1)).Nodup)
    (k : Bytes) (v : Sigproc.Val) (h : (k, v) ∈ kvs) : Dict.get (dictOf kvs) k = .ok (valOf v) := by
  induction kvs with
  | nil => cases h
  | cons kv kvs ih =>
    obtain ⟨k', v'⟩ := kv
    simp only [List.map_cons, List.nodup_cons] at hnd
    rcases List.mem_cons.1 h with h | h
    · cases h
      exact get_cons_self _ _ _
    · have hne : k' ≠ k := by
        intro e; subst e
        exact hnd.1 (List.mem_map.2 ⟨(k', v), h, rfl⟩)
      have := ih hnd.2 h
      unfold dictOf at this ⊢
      rw [List.map_cons, get_cons_ne _ _ _ _ hne, this]

theorem mem_dictOf {kvs : List (Sigproc.Bytes × Sigproc.Val)} {e : Bytes × PyVal} (h : e ∈ dictOf kvs) :
    ∃ kv ∈ kvs, e = (kv.1, valOf kv.2) := by
  obtain ⟨kv, hkv, rfl⟩ := List.mem_map.1 h
  exact ⟨kv, hkv, rfl⟩

/-! ### the values -/

/-- the value branch of the loop at a position where the model's `rdVal` succeeds -/
theorem readValue_at (fp : Fp) (hdr : Dict) (key : Bytes) (f : Sigproc.Fmt) (bs rest : Bytes) (v : Sigproc.Val)
    (hat : fp.data.drop fp.pos = bs) (h : Sigproc.rdVal f bs = some (v, rest)) :
    ∃ p, readValue fp hdr key (fmtName f) = .ok (⟨fp.data, p⟩, Dict.set hdr key (valOf v)) ∧
      fp.data.drop p = rest := by
  cases f with
  | str =>
    simp only [Sigproc.rdVal, Option.map_eq_some_iff] at h
    obtain ⟨⟨s, r'⟩, hs, he⟩ := h
    simp only [Prod.mk.injEq] at he
    obtain ⟨rfl, rfl⟩ := he
    obtain ⟨h1, h2, _⟩ := read_string_at fp bs _ _ hat hs
    refine ⟨fp.pos + 4 + s.length, ?_, h2⟩
    simp only [readValue, fmtName, if_true, h1, bindE_ok, valOf]
  | I =>
    simp only [Sigproc.rdVal, Option.map_eq_some_iff] at h
    obtain ⟨⟨n, r'⟩, hs, he⟩ := h
    simp only [Prod.mk.injEq] at he
    obtain ⟨rfl, rfl⟩ := he
    rcases bs with _ | ⟨b0, _ | ⟨b1, _ | ⟨b2, _ | ⟨b3, r⟩⟩⟩⟩
    any_goals (simp [Sigproc.rd32] at hs; done)
    simp only [Sigproc.rd32, Option.some.injEq, Prod.mk.injEq] at hs
    obtain ⟨rfl, rfl⟩ := hs
    obtain ⟨h4a, h4b⟩ := read_exact fp [b0, b1, b2, b3] _ hat
    simp only [List.length_cons, List.length_nil] at h4a h4b
    refine ⟨fp.pos + 4, ?_, h4b⟩
    have hne : ¬ ("I" = "str") := by decide
    simp only [readValue, fmtName, hne, if_false, calcsize_I, bindE_ok, h4a, structUnpack_I, valOf]
  | d =>
    simp only [Sigproc.rdVal] at h
    split at h
    · cases h
    · rename_i hlen
      simp only [Option.some.injEq, Prod.mk.injEq] at h
      obtain ⟨rfl, rfl⟩ := h
      have hl8 : (bs.take 8).length = 8 := by rw [List.length_take]; omega
      obtain ⟨ha, hb⟩ := read_exact fp (bs.take 8) (bs.drop 8) (by rw [List.take_append_drop]; exact hat)
      rw [hl8] at ha hb
      refine ⟨fp.pos + 8, ?_, hb⟩
      have hne : ¬ ("d" = "str") := by decide
      have hne2 : ¬ ("d" = "I") := by decide
      simp only [readValue, fmtName, hne, if_false, calcsize, hne2, if_true, bindE_ok, ha, structUnpack, hl8, valOf]
  | b =>
    simp only [Sigproc.rdVal] at h
    split at h
    · rename_i b r
      simp only [Option.some.injEq, Prod.mk.injEq] at h
      obtain ⟨rfl, rfl⟩ := h
      obtain ⟨ha, hb⟩ := read_exact fp [b] r hat
      simp only [List.length_cons, List.length_nil] at ha hb
      refine ⟨fp.pos + 1, ?_, hb⟩
      have hne : ¬ ("b" = "str") := by decide
      have hne2 : ¬ ("b" = "I") := by decide
      have hne3 : ¬ ("b" = "d") := by decide
      simp only [readValue, fmtName, hne, if_false, calcsize, hne2, hne3, if_true, bindE_ok, ha, structUnpack, valOf]
    · cases h

/-- every key the model's loop returns is a key of the table -/
theorem parseLoop_keys (fuel : Nat) (bs : Bytes) (kvs : List (Sigproc.Bytes × Sigproc.Val)) (r : Bytes)
    (h : Sigproc.parseLoop fuel bs = .ok (kvs, r)) : ∀ kv ∈ kvs, (Sigproc.keyFmt kv.1).isSome = true := by
  induction fuel generalizing bs kvs with
  | zero => simp [Sigproc.parseLoop] at h
  | succ fuel ih =>
    unfold Sigproc.parseLoop at h
    split at h
    · cases h
    · split at h
      · simp only [Except.ok.injEq, Prod.mk.injEq] at h
        obtain ⟨rfl, rfl⟩ := h
        intro kv hkv; cases hkv
      · split at h
        · cases h
        · rename_i f hf
          split at h
          · cases h
          · split at h
            · cases h
            · rename_i kvs' r' hrec
              simp only [Except.ok.injEq, Prod.mk.injEq] at h
              obtain ⟨rfl, rfl⟩ := h
              intro kv hkv
              rcases List.mem_cons.1 hkv with rfl | hkv
              · simp only [hf, Option.isSome_some]
              · exact ih _ _ hrec kv hkv

/-- the loop of `parse_header` against the model's `parseLoop`, with the same fuel -/
theorem loop_is_model (fuel : Nat) (fp : Fp) (key0 : Bytes) (hdr : Dict)
    (kvs : List (Sigproc.Bytes × Sigproc.Val)) (r : Bytes)
    (h : Sigproc.parseLoop fuel (fp.data.drop fp.pos) = .ok (kvs, r))
    (hnd : (kvs.map (·.1)).Nodup) (hdis : ∀ kv ∈ kvs, ∀ e ∈ hdr, e.1 ≠ kv.1) :
    ∃ p, whileFuel fuel (fp, key0, hdr) loopBody
        = .ok (⟨fp.data, p⟩, ascii "HEADER_END", hdr ++ dictOf kvs) ∧
      fp.data.drop p = r ∧ p ≤ fp.data.length := by
  induction fuel generalizing fp key0 hdr kvs with
  | zero => simp [Sigproc.parseLoop] at h
  | succ fuel ih =>
    unfold Sigproc.parseLoop at h
    split at h
    · cases h
    · rename_i k rest hk
      obtain ⟨h1, h2, h3⟩ := read_string_at fp _ k rest rfl hk
      split at h
      · rename_i hend
        simp only [Except.ok.injEq, Prod.mk.injEq] at h
        obtain ⟨rfl, rfl⟩ := h
        have hend' : k = ascii "HEADER_END" := hend
        refine ⟨fp.pos + 4 + k.length, ?_, h2, h3⟩
        simp only [whileFuel, loopBody, h1, bindE_ok, hend', if_true, dictOf, List.map_nil, List.append_nil]
      · rename_i hend
        have hend' : ¬ (k = ascii "HEADER_END") := hend
        split at h
        · cases h
        · rename_i f hf
          split at h
          · cases h
          · rename_i v rest' hv
            split at h
            · cases h
            · rename_i kvs' r' hrec
              simp only [Except.ok.injEq, Prod.mk.injEq] at h
              obtain ⟨rfl, rfl⟩ := h
              obtain ⟨p1, hrv, hp1⟩ :=
                readValue_at ⟨fp.data, fp.pos + 4 + k.length⟩ hdr k f rest rest' v h2 hv
              simp only [List.map_cons, List.nodup_cons] at hnd
              have habs : ∀ e ∈ hdr, e.1 ≠ k := fun e he => hdis (k, v) (List.mem_cons_self ..) e he
              rw [set_absent hdr k _ habs] at hrv
              have hdis' : ∀ kv ∈ kvs', ∀ e ∈ hdr ++ [(k, valOf v)], e.1 ≠ kv.1 := by
                intro kv hkv e he
                rcases List.mem_append.1 he with he | he
                · exact hdis kv (List.mem_cons_of_mem _ hkv) e he
                · rw [List.mem_singleton.1 he]
                  intro e'
                  exact hnd.1 (List.mem_map.2 ⟨kv, hkv, e'.symm⟩)
              obtain ⟨p, hw, hp, hple⟩ := ih ⟨fp.data, p1⟩ k (hdr ++ [(k, valOf v)]) kvs' (by simpa using hrec ▸ congrArg _ hp1)
                hnd.2 hdis'
              refine ⟨p, ?_, hp, hple⟩
              have hkf : CodecPrims.keyFmt k = .ok (fmtName f) := by rw [keyFmt_is_model, hf]
              simp only [whileFuel, loopBody, h1, bindE_ok, hend', if_false, hkf, hrv]
              rw [hw]
              simp only [dictOf, List.map_cons, List.append_assoc, List.cons_append, List.nil_append]

/-! ### `parse_header`: after the loop -/

theorem set_ext (hdr ext : Dict) (k : Bytes) (v : PyVal) (h1 : ∀ e ∈ hdr, e.1 ≠ k) (h2 : ∀ e ∈ ext, e.1 ≠ k) :
    Dict.set (hdr ++ ext) k v = hdr ++ (ext ++ [(k, v)]) := by
  rw [set_absent, List.append_assoc]
  intro e he
  rcases List.mem_append.1 he with he | he
  · exact h1 e he
  · exact h2 e he

theorem floorDiv_nat (a b : Nat) (hb : b ≠ 0) : floorDiv (a : Int) (b : Int) = .ok ((a / b : Nat) : Int) := by
  have : ¬ ((b : Int) = 0) := by omega
  simp only [floorDiv, this, if_false, Int.ofNat_fdiv]

theorem parseTailG_eq (kH kF kD kS kB kC : Bytes) (data : Bytes) (p : Nat) (hdr : Dict) (nbits nchans : Nat)
    (hp : p ≤ data.length)
    (hH : ∀ e ∈ hdr, e.1 ≠ kH) (hF : ∀ e ∈ hdr, e.1 ≠ kF) (hD : ∀ e ∈ hdr, e.1 ≠ kD) (hS : ∀ e ∈ hdr, e.1 ≠ kS)
    (dHF : kH ≠ kF) (dHD : kH ≠ kD) (dHS : kH ≠ kS) (dFD : kF ≠ kD) (dFS : kF ≠ kS) (dDS : kD ≠ kS)
    (hB : Dict.get hdr kB = .ok (.int nbits)) (hC : Dict.get hdr kC = .ok (.int nchans))
    (hb0 : nbits ≠ 0) (hc0 : nchans ≠ 0) :
    parseTailG kH kF kD kS kB kC ⟨data, p⟩ hdr =
      .ok (hdr ++ [(kH, .int p), (kF, .int data.length), (kD, .int ((data.length : Int) - p)),
                   (kS, .int ((8 * (data.length - p) / nbits / nchans : Nat) : Int))]) := by
  have s1 : Dict.set hdr kH (.int (p : Int)) = hdr ++ [(kH, .int p)] := set_absent _ _ _ hH
  have s2 : Dict.set (hdr ++ [(kH, .int (p : Int))]) kF (.int (data.length : Int))
      = hdr ++ [(kH, .int p), (kF, .int data.length)] :=
    set_ext _ _ _ _ hF (by intro e he; rw [List.mem_singleton.1 he]; exact dHF)
  have g1 : Dict.get (hdr ++ [(kH, .int (p : Int)), (kF, .int (data.length : Int))]) kF
      = .ok (.int data.length) := by
    rw [get_append_absent _ _ _ hF, get_cons_ne _ _ _ _ dHF, get_cons_self]
  have g2 : Dict.get (hdr ++ [(kH, .int (p : Int)), (kF, .int (data.length : Int))]) kH = .ok (.int p) := by
    rw [get_append_absent _ _ _ hH, get_cons_self]
  have s3 : Dict.set (hdr ++ [(kH, .int (p : Int)), (kF, .int (data.length : Int))]) kD
        (.int ((data.length : Int) - p))
      = hdr ++ [(kH, .int p), (kF, .int data.length), (kD, .int ((data.length : Int) - p))] :=
    set_ext _ _ _ _ hD (by
      intro e he
      simp only [List.mem_cons, List.not_mem_nil, or_false] at he
      rcases he with rfl | rfl
      · exact dHD
      · exact dFD)
  have g3 : Dict.get (hdr ++ [(kH, .int (p : Int)), (kF, .int (data.length : Int)),
      (kD, .int ((data.length : Int) - p))]) kD = .ok (.int ((data.length : Int) - p)) := by
    rw [get_append_absent _ _ _ hD, get_cons_ne _ _ _ _ dHD, get_cons_ne _ _ _ _ dFD, get_cons_self]
  have s4 : ∀ z : Int, Dict.set (hdr ++ [(kH, .int (p : Int)), (kF, .int (data.length : Int)),
      (kD, .int ((data.length : Int) - p))]) kS (.int z)
      = hdr ++ [(kH, .int p), (kF, .int data.length), (kD, .int ((data.length : Int) - p)), (kS, .int z)] :=
    fun z => set_ext _ _ _ _ hS (by
      intro e he
      simp only [List.mem_cons, List.not_mem_nil, or_false] at he
      rcases he with rfl | rfl | rfl
      · exact dHS
      · exact dFS
      · exact dDS)
  have e8 : (8 : Int) * ((data.length : Int) - (p : Int)) = ((8 * (data.length - p) : Nat) : Int) := by omega
  unfold parseTailG
  simp only [s1, s2, g1, g2, bindE_ok, PyVal.toInt, s3, g3, get_append_present _ _ _ _ hB,
    get_append_present _ _ _ _ hC, e8, floorDiv_nat _ _ hb0, floorDiv_nat _ _ hc0, s4]

/-! ### `parse_header` -/

def NBITS : Bytes := ascii "nbits"
def NCHANS : Bytes := ascii "nchans"

def derived (fileLen n nbits nchans : Nat) : Dict :=
  [(ascii "hdrlen", .int n), (ascii "filelen", .int fileLen), (ascii "datalen", .int ((fileLen : Int) - n)),
   (ascii "nsamples", .int (((8 * (fileLen - n) / nbits / nchans : Nat) : Int)))]

theorem keyFmt_hdrlen : Sigproc.keyFmt (ascii "hdrlen") = none := by decide +kernel
theorem keyFmt_filelen : Sigproc.keyFmt (ascii "filelen") = none := by decide +kernel
theorem keyFmt_datalen : Sigproc.keyFmt (ascii "datalen") = none := by decide +kernel
theorem keyFmt_nsamples : Sigproc.keyFmt (ascii "nsamples") = none := by decide +kernel

theorem derived_nonkeys (a b c d : Nat) : ∀ e ∈ derived a b c d, isKey e.1 = false := by
  intro e he
  simp only [derived, List.mem_cons, List.not_mem_nil, or_false] at he
  rcases he with rfl | rfl | rfl | rfl <;> rw [isKey_is_model]
  · rw [keyFmt_hdrlen]; rfl
  · rw [keyFmt_filelen]; rfl
  · rw [keyFmt_datalen]; rfl
  · rw [keyFmt_nsamples]; rfl

theorem parseHeader_keys (file : Bytes) (kvs : List (Sigproc.Bytes × Sigproc.Val)) (n : Nat)
    (h : Sigproc.parseHeader file = .ok (kvs, n)) : ∀ kv ∈ kvs, (Sigproc.keyFmt kv.1).isSome = true := by
  unfold Sigproc.parseHeader at h
  split at h
  · cases h
  · split at h
    · cases h
    · split at h
      · cases h
      · rename_i kvs' r hloop
        simp only [Except.ok.injEq, Prod.mk.injEq] at h
        obtain ⟨rfl, rfl⟩ := h
        exact parseLoop_keys _ _ _ _ hloop

/-- a key of the table is none of the derived keys -/
theorem ne_of_isSome {k k' : Bytes} (h : (Sigproc.keyFmt k).isSome = true) (h' : Sigproc.keyFmt k' = none) :
    k ≠ k' := by
  intro e; rw [e, h'] at h; cases h

theorem parse_header_is_model (file : Bytes) (kvs : List (Sigproc.Bytes × Sigproc.Val)) (n nbits nchans : Nat)
    (h : Sigproc.parseHeader file = .ok (kvs, n))
    (hnd : (kvs.map (·.1)).Nodup)
    (hb : (NBITS, Sigproc.Val.u32 nbits) ∈ kvs) (hc : (NCHANS, Sigproc.Val.u32 nchans) ∈ kvs)
    (hb0 : nbits ≠ 0) (hc0 : nchans ≠ 0) :
    parse_header file = .ok (dictOf kvs ++ derived file.length n nbits nchans) := by
  have hkeys := parseHeader_keys file kvs n h
  unfold Sigproc.parseHeader at h
  split at h
  · cases h
  · rename_i k rest hk
    split at h
    · cases h
    · rename_i hstart
      have hstart' : k = ascii "HEADER_START" := by
        have : k = Sigproc.HEADER_START := by simpa using hstart
        exact this
      split at h
      · cases h
      · rename_i kvs' r hloop
        simp only [Except.ok.injEq, Prod.mk.injEq] at h
        obtain ⟨rfl, rfl⟩ := h
        obtain ⟨h1, h2, _⟩ := read_string_at ⟨file, 0⟩ file k rest rfl hk
        obtain ⟨p, hw, hp, hple⟩ := loop_is_model (file.length + 1) ⟨file, 0 + 4 + k.length⟩ k [] kvs' r
          (by rw [h2]; exact hloop) hnd (fun _ _ e he => by cases he)
        have hne : ∀ k', Sigproc.keyFmt k' = none → ∀ e ∈ dictOf kvs', e.1 ≠ k' := by
          intro k' hk' e he
          obtain ⟨kv, hkv, rfl⟩ := mem_dictOf he
          exact ne_of_isSome (hkeys kv hkv) hk'
        have hple : p ≤ file.length := hple
        have hp : file.drop p = r := hp
        have hn : file.length - r.length = p := by
          rw [← hp, List.length_drop]
          omega
        rw [parse_header_eq, h1]
        simp only [catchAs_ok, bindE_ok, hstart', ne_eq, not_true_eq_false, if_false]
        simp only [hstart'] at hw
        rw [hw]
        simp only [bindE_ok, List.nil_append]
        rw [hn, parseTailG_eq _ _ _ _ _ _ file p (dictOf kvs') nbits nchans hple
          (hne _ keyFmt_hdrlen) (hne _ keyFmt_filelen) (hne _ keyFmt_datalen) (hne _ keyFmt_nsamples)
          (by decide) (by decide) (by decide) (by decide) (by decide) (by decide)
          (get_of_mem kvs' hnd (ascii "nbits") _ hb) (get_of_mem kvs' hnd (ascii "nchans") _ hc) hb0 hc0]
        rfl

theorem structUnpack_I_short (bs : Bytes) (h : bs.length ≠ 4) : structUnpack "I" bs = .error "struct.error" := by
  simp only [structUnpack, if_true, h, if_false]

theorem parse_header_bad_magic (file s rest : Bytes) (h : Sigproc.rdStr file = some (s, rest))
    (hs : s ≠ Sigproc.HEADER_START) : parse_header file = .error "OSError" := by
  obtain ⟨h1, _, _⟩ := read_string_at ⟨file, 0⟩ file s rest rfl h
  have hs' : s ≠ ascii "HEADER_START" := hs
  rw [parse_header_eq, h1]
  simp only [catchAs_ok, bindE_ok, hs', ne_eq, not_false_eq_true, if_true]

theorem parse_header_too_short (file : Bytes) (h : file.length < 4) : parse_header file = .error "OSError" := by
  have h1 : _read_string ⟨file, 0⟩ = .error "struct.error" := by
    unfold _read_string
    simp only [calcsize_I, bindE_ok]
    rw [structUnpack_I_short]
    · simp only [bindE_error]
    · simp only [Fp.read, List.drop_zero, List.length_take]
      omega
  rw [parse_header_eq, h1]
  simp only [catchAs_error, if_true, bindE_error]

/-! ### `edit_header` -/

def editValOf : Sigproc.EditVal → PyVal
  | .int z => .int z
  | .flt bs => .dbl bs
  | .str s => .str s

def EditWF : Sigproc.EditVal → Prop
  | .str s => s.length < 2 ^ 32
  | _ => True

def WFv (v : Sigproc.Val) : Prop := v.WF ∧ (∀ b, v = .i8 b → b < 256)

def Typed (kv : Sigproc.Bytes × Sigproc.Val) : Prop :=
  kv.1.length < 2 ^ 32 ∧ WFv kv.2 ∧ (Sigproc.keyFmt kv.1 = some kv.2.fmt ∨ Sigproc.keyFmt kv.1 = none)

theorem WFe_of_WFv {v : Sigproc.Val} (h : WFv v) : WFe v := by
  cases v with
  | u32 n => exact h.1
  | f64 bs => trivial
  | i8 b => exact h.2 b rfl
  | str s => exact h.1

theorem TypedE_of_Typed {kv : Sigproc.Bytes × Sigproc.Val} (h : Typed kv) : TypedE kv :=
  ⟨h.1, WFe_of_WFv h.2.1, h.2.2⟩

/-- `coerce` succeeds with the value `struct.pack` will be handed -/
theorem coerce_ok_val {f : Sigproc.Fmt} {v : Sigproc.EditVal} {val : Sigproc.Val} (hv : EditWF v)
    (h : Sigproc.coerce f v = .ok val) : valOf val = editValOf v ∧ val.fmt = f ∧ WFe val := by
  cases f <;> cases v <;> simp only [Sigproc.coerce] at h
  all_goals first
    | (split at h <;> cases h)
    | cases h
  · rename_i z hz
    refine ⟨?_, rfl, ?_⟩
    · simp only [valOf, editValOf]; congr 1; omega
    · show z.toNat < 2 ^ 32; omega
  · exact ⟨rfl, rfl, trivial⟩
  · rename_i z hz
    refine ⟨?_, rfl, ?_⟩
    · simp only [valOf, editValOf]; congr 1; split <;> omega
    · show (z % 256).toNat < 256; omega
  · exact ⟨rfl, rfl, hv⟩

theorem coerce_error_other {f : Sigproc.Fmt} {v : Sigproc.EditVal} {e : Err}
    (h : Sigproc.coerce f v = .error e) : e = .other := by
  cases f <;> cases v <;> simp only [Sigproc.coerce] at h
  all_goals first
    | (split at h <;> cases h <;> rfl)
    | (cases h; rfl)
    | cases h

/-- when `coerce` refuses the value, `struct.pack` inside `encode_key` does -/
theorem coerce_error_encode (key : Bytes) (hk : key.length < 2 ^ 32) {f : Sigproc.Fmt} {v : Sigproc.EditVal}
    {e : Err} (h : Sigproc.coerce f v = .error e) :
    ∃ e', encode_key key (some (editValOf v)) (fmtName f) = .error e' := by
  have nI : ¬ ("I" = "str") := by decide
  have nd : ¬ ("d" = "str") := by decide
  have nb : ¬ ("b" = "str") := by decide
  have ndI : ¬ ("d" = "I") := by decide
  have nbI : ¬ ("b" = "I") := by decide
  have nbd : ¬ ("b" = "d") := by decide
  have nsI : ¬ ("str" = "I") := by decide
  have nsd : ¬ ("str" = "d") := by decide
  have nsb : ¬ ("str" = "b") := by decide
  have e32 : (4294967296 : Int) = 2 ^ 32 := by decide
  cases f <;> cases v <;> simp only [Sigproc.coerce] at h
  all_goals first
    | (cases h; done)
    | (split at h <;> first | (cases h; done) | skip)
    | skip
  all_goals refine ⟨"struct.error", ?_⟩
  all_goals simp only [encode_key, optCases_some, editValOf, fmtName, PyVal.isStr, nI, nd, nb, false_and, and_false,
    Bool.false_eq_true, if_false, structPack_I _ hk, bindE_ok]
  all_goals simp only [structPack, ndI, nbI, nbd, nsI, nsd, nsb, if_true, if_false, bindE_error, e32]
  all_goals (rename_i hz; simp only [hz, if_false, bindE_error])

theorem mem_set_self (d : Dict) (k : Bytes) (v : PyVal) : (k, v) ∈ Dict.set d k v := by
  unfold Dict.set
  split
  · rename_i h
    obtain ⟨e, he, hek⟩ := List.any_eq_true.1 h
    exact List.mem_map.2 ⟨e, he, by simp only [hek, if_true]⟩
  · exact List.mem_append_right _ (List.mem_singleton.2 rfl)

theorem mem_set {d : Dict} {k : Bytes} {v : PyVal} {e : Bytes × PyVal} (h : e ∈ Dict.set d k v) :
    e = (k, v) ∨ (e ∈ d ∧ e.1 ≠ k) := by
  unfold Dict.set at h
  by_cases hany : d.any (fun kv => kv.1 == k) = true
  · rw [if_pos hany] at h
    obtain ⟨x, hx, rfl⟩ := List.mem_map.1 h
    split
    · exact .inl rfl
    · rename_i hne
      exact .inr ⟨hx, by simpa using hne⟩
  · rw [if_neg hany] at h
    rcases List.mem_append.1 h with h | h
    · by_cases hk : e.1 = k
      · exact absurd (List.any_eq_true.2 ⟨e, h, by simpa using hk⟩) hany
      · exact .inr ⟨h, hk⟩
    · exact .inl (List.mem_singleton.1 h)

theorem map_set_absent (d : Dict) (k : Bytes) (v : PyVal) (h : ∀ e ∈ d, e.1 ≠ k) :
    d.map (fun kv => if kv.1 == k then (k, v) else kv) = d := by
  induction d with
  | nil => rfl
  | cons x d ih =>
    have hx : (x.1 == k) = false := by simpa using h x (List.mem_cons_self ..)
    simp only [List.map_cons, hx, Bool.false_eq_true, if_false, ih (fun e he => h e (List.mem_cons_of_mem _ he))]

theorem any_dictOf (kvs : List (Sigproc.Bytes × Sigproc.Val)) (k : Bytes) :
    (dictOf kvs).any (fun kv => kv.1 == k) = kvs.any (·.1 == k) := by
  unfold dictOf
  rw [List.any_map]
  rfl

theorem map_dictOf (kvs : List (Sigproc.Bytes × Sigproc.Val)) (k : Bytes) (val : Sigproc.Val) :
    (dictOf kvs).map (fun kv => if kv.1 == k then (k, valOf val) else kv) = dictOf (kvs.map (Sigproc.upd k val)) := by
  unfold dictOf
  rw [List.map_map, List.map_map]
  apply List.map_congr_left
  intro kv _
  simp only [Function.comp, Sigproc.upd]
  split <;> rfl

/-- writing a key of the table into a parsed header: the loop of `encode_header` produces the model's body -/
theorem encDict_set (kvs : List (Sigproc.Bytes × Sigproc.Val)) (ext : Dict) (key : Bytes) (val : Sigproc.Val)
    (hT : ∀ kv ∈ kvs, TypedE kv) (hkv : TypedE (key, val)) (hkey : (Sigproc.keyFmt key).isSome = true)
    (hext : ∀ e ∈ ext, isKey e.1 = false) :
    encDict (Dict.set (dictOf kvs ++ ext) key (valOf val)) = .ok (Sigproc.encodeBody (Sigproc.update kvs key val)) := by
  have hextk : ∀ e ∈ ext, e.1 ≠ key := by
    intro e he hk
    have := hext e he
    rw [hk, isKey_is_model, hkey] at this
    cases this
  unfold Dict.set
  rw [List.any_append, any_key_false ext key hextk, Bool.or_false, any_dictOf, Sigproc.update_eq]
  by_cases hany : kvs.any (·.1 == key) = true
  · rw [if_pos hany, if_pos hany, List.map_append, map_set_absent ext key _ hextk, map_dictOf, encDict_append,
      encDict_dictOf, encDict_nonkeys ext hext]
    · simp only [bindE_ok, List.append_nil]
    · intro kv hkv'
      obtain ⟨kv0, hkv0, rfl⟩ := List.mem_map.1 hkv'
      unfold Sigproc.upd
      split
      · exact hkv
      · exact hT kv0 hkv0
  · rw [if_neg hany, if_neg hany, encDict_append, encDict_append, encDict_dictOf kvs hT, encDict_nonkeys ext hext]
    have h1 := encItem_typed key val hkv
    rw [hkey, if_pos rfl] at h1
    simp only [bindE_ok, encDict, h1, List.append_nil, Sigproc.encodeBody_append,
      Sigproc.encodeBody, hkey, if_true]

/-- the `source_name` padding step of `edit_header`, verbatim -/
def padStage (header : Dict) (key : Bytes) (value : PyVal) : Except String PyVal :=
  if (key = (ascii "source_name") ∧ (value.isStr = true)) then
    bindE (Dict.get header (ascii "source_name")) (fun t2 =>
    bindE (PyVal.len t2) (fun t3 =>
    let oldlen : Int := t3
    let value : PyVal := (PyVal.str ((value.strBytes.take (oldlen).toNat) ++ (List.replicate ((oldlen - ((value.strBytes.length : Nat) : Int))).toNat 32)))
    .ok value))
  else
    .ok value

theorem edit_header_eq (file key : Bytes) (value : PyVal) :
    edit_header file key value =
      if isKey key = false then .error "ValueError" else
      bindE (parse_header file) (fun header =>
      bindE (padStage header key value) (fun value =>
      bindE (encode_header (Dict.set header key value)) (fun new_hdr =>
      bindE (Dict.get header (ascii "hdrlen")) (fun t5 =>
      if t5 = PyVal.int ((new_hdr.length : Nat) : Int) then .ok ((⟨file, 0⟩ : Fp).write new_hdr).data
      else .error "ValueError")))) := rfl

/-- the model's padding step -/
def padM (kvs : List (Sigproc.Bytes × Sigproc.Val)) (key : Bytes) (v : Sigproc.EditVal) :
    Except Err Sigproc.EditVal :=
  match v with
  | .str s =>
    if key = Sigproc.SOURCE_NAME then
      match kvs.find? (·.1 == Sigproc.SOURCE_NAME) with
      | some (_, .str old) => .ok (.str (s.take old.length ++ List.replicate (old.length - s.length) 32))
      | _ => .error .other
    else .ok v
  | _ => .ok v

theorem editHeader_eq (file key : Bytes) (v : Sigproc.EditVal) :
    Sigproc.editHeader file key v =
      match Sigproc.keyFmt key with
      | none => .error .valueError
      | some f =>
        match Sigproc.parseHeader file with
        | .error e => .error e
        | .ok (kvs, hdrlen) =>
          match padM kvs key v with
          | .error e => .error e
          | .ok v' =>
            match Sigproc.coerce f v' with
            | .error e => .error e
            | .ok val =>
              if (Sigproc.encodeHeader (Sigproc.update kvs key val)).length = hdrlen then
                .ok (Sigproc.encodeHeader (Sigproc.update kvs key val) ++ file.drop hdrlen)
              else .error .valueError := rfl

theorem keyFmt_source_name : Sigproc.keyFmt Sigproc.SOURCE_NAME = some .str := by decide +kernel

theorem pad_is_model (kvs : List (Sigproc.Bytes × Sigproc.Val)) (ext : Dict) (key : Bytes) (v : Sigproc.EditVal)
    (hnd : (kvs.map (·.1)).Nodup) (hT : ∀ kv ∈ kvs, Typed kv) (hext : ∀ e ∈ ext, isKey e.1 = false)
    (hv : EditWF v) :
    (∃ v', padM kvs key v = .ok v' ∧ padStage (dictOf kvs ++ ext) key (editValOf v) = .ok (editValOf v') ∧
      EditWF v') ∨
    (padM kvs key v = .error .other ∧ padStage (dictOf kvs ++ ext) key (editValOf v) = .error "KeyError") := by
  cases v with
  | int z =>
    refine .inl ⟨.int z, rfl, ?_, trivial⟩
    simp only [padStage, editValOf, PyVal.isStr, Bool.false_eq_true, and_false, if_false]
  | flt bs =>
    refine .inl ⟨.flt bs, rfl, ?_, trivial⟩
    simp only [padStage, editValOf, PyVal.isStr, Bool.false_eq_true, and_false, if_false]
  | str s =>
    by_cases hkey : key = Sigproc.SOURCE_NAME
    · have hkey' : key = ascii "source_name" := hkey
      cases hfind : kvs.find? (·.1 == Sigproc.SOURCE_NAME) with
      | none =>
        refine .inr ⟨?_, ?_⟩
        · simp only [padM, hkey, if_true, hfind]
        · have habs : ∀ e ∈ dictOf kvs, e.1 ≠ ascii "source_name" := by
            intro e he
            obtain ⟨kv, hkv, rfl⟩ := mem_dictOf he
            have := List.find?_eq_none.1 hfind kv hkv
            exact (by simpa using this : kv.1 ≠ Sigproc.SOURCE_NAME)
          have habs2 : ∀ e ∈ ext, e.1 ≠ ascii "source_name" := by
            intro e he hk
            have := hext e he
            rw [hk, isKey_is_model] at this
            have h2 : Sigproc.keyFmt (ascii "source_name") = some .str := keyFmt_source_name
            rw [h2] at this
            cases this
          simp only [padStage, hkey', editValOf, PyVal.isStr, and_self, if_true]
          rw [get_append_absent _ _ _ habs, Dict.get, find_key_none ext _ habs2]
          simp only [bindE_error]
      | some kv =>
        obtain ⟨k', val'⟩ := kv
        have hk' : k' = Sigproc.SOURCE_NAME := by simpa using List.find?_some hfind
        have hmem := List.mem_of_find?_eq_some hfind
        subst hk'
        have hty := hT _ hmem
        have hfmt : val'.fmt = .str := by
          rcases hty.2.2 with h | h
          · simp only at h
            rw [keyFmt_source_name] at h
            exact (Option.some.inj h).symm
          · simp only at h
            rw [keyFmt_source_name] at h
            cases h
        cases val' with
        | str old =>
          have hold : old.length < 2 ^ 32 := hty.2.1.1
          have hs : s.length < 2 ^ 32 := hv
          refine .inl ⟨.str (s.take old.length ++ List.replicate (old.length - s.length) 32), ?_, ?_, ?_⟩
          · simp only [padM, hkey, if_true, hfind]
          · have hget : Dict.get (dictOf kvs ++ ext) (ascii "source_name") = .ok (.str old) :=
              get_append_present _ _ _ _ (get_of_mem kvs hnd (ascii "source_name") (.str old) hmem)
            have e1 : ((old.length : Int)).toNat = old.length := by omega
            have e2 : ((old.length : Int) - (s.length : Int)).toNat = old.length - s.length := by omega
            simp only [padStage, hkey', editValOf, PyVal.isStr, and_self, if_true, hget, bindE_ok, PyVal.len,
              PyVal.strBytes, e1, e2]
          · show (s.take old.length ++ List.replicate (old.length - s.length) 32).length < 2 ^ 32
            simp only [List.length_append, List.length_take, List.length_replicate]
            omega
        | u32 n => cases hfmt
        | f64 bs => cases hfmt
        | i8 b => cases hfmt
    · have hkey' : ¬ (key = ascii "source_name") := hkey
      refine .inl ⟨.str s, ?_, ?_, hv⟩
      · simp only [padM, hkey, if_false]
      · simp only [padStage, hkey', false_and, if_false]

/-- the two results agree on success (same bytes) and on `ValueError` -/
def Rel (m : Except Err Bytes) (s : Except String Bytes) : Prop :=
  (∀ f, m = .ok f ↔ s = .ok f) ∧ (m = .error .valueError ↔ s = .error "ValueError")

theorem Rel_ok (f : Bytes) : Rel (.ok f) (.ok f) := by
  refine ⟨fun _ => ?_, ?_⟩
  · constructor <;> intro h <;> cases h <;> rfl
  · constructor <;> intro h <;> cases h

theorem Rel_ve : Rel (.error .valueError) (.error "ValueError") := by
  refine ⟨fun _ => ?_, ⟨fun _ => rfl, fun _ => rfl⟩⟩
  constructor <;> intro h <;> cases h

theorem Rel_other (e' : String) (h : e' ≠ "ValueError") : Rel (.error .other) (.error e') := by
  refine ⟨fun _ => ?_, ?_⟩
  · constructor <;> intro h <;> cases h
  · constructor
    · intro h; cases h
    · intro h'; exact absurd (Except.error.inj h') h

theorem edit_header_is_model (file key : Bytes) (v : Sigproc.EditVal)
    (kvs : List (Sigproc.Bytes × Sigproc.Val)) (n nbits nchans : Nat)
    (h : Sigproc.parseHeader file = .ok (kvs, n))
    (hnd : (kvs.map (·.1)).Nodup) (hT : ∀ kv ∈ kvs, Typed kv)
    (hb : (NBITS, Sigproc.Val.u32 nbits) ∈ kvs) (hc : (NCHANS, Sigproc.Val.u32 nchans) ∈ kvs)
    (hb0 : nbits ≠ 0) (hc0 : nchans ≠ 0) (hv : EditWF v) (hk : key.length < 2 ^ 32) :
    Rel (Sigproc.editHeader file key v) (edit_header file key (editValOf v)) := by
  rw [editHeader_eq, edit_header_eq, isKey_is_model]
  cases hf : Sigproc.keyFmt key with
  | none => simp only [Option.isSome_none, if_true]; exact Rel_ve
  | some f =>
    have hkeys := parseHeader_keys file kvs n h
    have hext := derived_nonkeys file.length n nbits nchans
    have hTE : ∀ kv ∈ kvs, TypedE kv := fun kv hkv => TypedE_of_Typed (hT kv hkv)
    simp only [h, parse_header_is_model file kvs n nbits nchans h hnd hb hc hb0 hc0, Option.isSome_some,
      Bool.true_eq_false, if_false, bindE_ok]
    rcases pad_is_model kvs (derived file.length n nbits nchans) key v hnd hT hext hv with
      ⟨v', hm, hs, hv'⟩ | ⟨hm, hs⟩
    · simp only [hm, hs, bindE_ok]
      cases hc' : Sigproc.coerce f v' with
      | error e =>
        have := coerce_error_other hc'
        subst this
        obtain ⟨e', he'⟩ := coerce_error_encode key hk hc'
        have hitem : encItem key (editValOf v') = .error e' := by
          unfold encItem
          rw [isKey_is_model, hf, keyFmt_is_model, hf]
          simp only [Option.isSome_some, Bool.true_eq_false, if_false, bindE_ok, he']
        have hne : e' ≠ "ValueError" := by
          rcases encItem_error_ne _ _ _ hitem with rfl | rfl <;> decide
        have hdict : encDict (Dict.set (dictOf kvs ++ derived file.length n nbits nchans) key (editValOf v'))
            = .error e' := by
          apply encDict_error _ key (editValOf v') e' _ _ hitem (mem_set_self ..)
          · intro kv hkv hkk
            rcases mem_set hkv with h1 | ⟨_, h1⟩
            · exact h1
            · exact absurd hkk h1
          · intro kv hkv hkk
            rcases mem_set hkv with h1 | ⟨h1, _⟩
            · rw [h1] at hkk; exact absurd rfl hkk
            · rcases List.mem_append.1 h1 with h1 | h1
              · obtain ⟨kv0, hkv0, rfl⟩ := mem_dictOf h1
                exact ⟨_, encItem_typed kv0.1 kv0.2 (hTE kv0 hkv0)⟩
              · exact ⟨[], by simp only [encItem, hext kv h1, if_true]⟩
        rw [encode_header_encDict, hdict]
        simp only [bindE_error]
        exact Rel_other _ hne
      | ok val =>
        obtain ⟨hval, hfmt, hwfe⟩ := coerce_ok_val hv' hc'
        have hkv : TypedE (key, val) := ⟨hk, hwfe, .inl (by rw [hf, hfmt])⟩
        have hget : Dict.get (dictOf kvs ++ derived file.length n nbits nchans) (ascii "hdrlen")
            = .ok (.int n) := by
          rw [get_append_absent]
          · exact get_cons_self _ _ _
          · intro e he
            obtain ⟨kv, hkv, rfl⟩ := mem_dictOf he
            exact ne_of_isSome (hkeys kv hkv) keyFmt_hdrlen
        have hfold : Sigproc.encStr Sigproc.HEADER_START ++ Sigproc.encodeBody (Sigproc.update kvs key val) ++
            Sigproc.encStr Sigproc.HEADER_END = Sigproc.encodeHeader (Sigproc.update kvs key val) := rfl
        rw [← hval, encode_header_encDict, encDict_set kvs _ key val hTE hkv (by rw [hf]; rfl) hext]
        simp only [bindE_ok, hget, PyVal.int.injEq, Int.natCast_inj, hfold]
        by_cases hlen : (Sigproc.encodeHeader (Sigproc.update kvs key val)).length = n
        · rw [if_pos hlen, if_pos hlen.symm]
          simp only [Fp.write, List.take_zero, List.nil_append, Nat.zero_add, hlen]
          exact Rel_ok _
        · rw [if_neg hlen, if_neg (fun h => hlen h.symm)]
          exact Rel_ve
    · simp only [hm, hs, bindE_error]
      exact Rel_other _ (by decide)

/-! ### coordinates -/

theorem truncQ_intCast (z : Int) : truncQ (z : Rat) = z := by
  unfold truncQ
  split
  · rw [← Rat.intCast_neg, Rat.floor_intCast]; omega
  · exact Rat.floor_intCast z

theorem floor_nonneg' {x : Rat} (h : 0 ≤ x) : 0 ≤ x.floor := Rat.le_floor_iff.2 (by simpa using h)

theorem radec_core (a : Rat) (ha : 0 ≤ a) :
    0 ≤ (a / 10000).floor ∧ 0 ≤ ((a - ((a / 10000).floor : Rat) * 10000) / 100).floor := by
  have h1 : 0 ≤ (a / 10000).floor := floor_nonneg' (by grind)
  have h2 := Rat.floor_le (a / 10000)
  exact ⟨h1, floor_nonneg' (by grind)⟩

theorem parse_radec_dec_is_model (ra dec : Rat) :
    (parse_radec ra dec).2 =
      ((Sigproc.parseRadec dec).1, (((Sigproc.parseRadec dec).2.1 : Nat) : Int),
       (((Sigproc.parseRadec dec).2.2.1 : Nat) : Int), (Sigproc.parseRadec dec).2.2.2) := by
  unfold parse_radec Sigproc.parseRadec
  simp only [truncQ_intCast]
  generalize ha : (if dec < 0 then -dec else dec) = a
  have ha0 : 0 ≤ a := by subst ha; split <;> grind
  obtain ⟨h1, h2⟩ := radec_core a ha0
  simp only [Rat.mul_comm (10000 : Rat), Rat.mul_comm (100 : Rat), Int.toNat_of_nonneg h1, Int.toNat_of_nonneg h2]

theorem parse_radec_ra_is_model (ra dec : Rat) (h : 0 ≤ ra) :
    (parse_radec ra dec).1 =
      ((((Sigproc.parseRadec ra).2.1 : Nat) : Int), (((Sigproc.parseRadec ra).2.2.1 : Nat) : Int),
       (Sigproc.parseRadec ra).2.2.2) := by
  have hn : ¬ (ra < 0) := by grind
  unfold parse_radec Sigproc.parseRadec
  simp only [truncQ_intCast, hn, if_false]
  obtain ⟨h1, h2⟩ := radec_core ra h
  simp only [Rat.mul_comm (10000 : Rat), Rat.mul_comm (100 : Rat), Int.toNat_of_nonneg h1, Int.toNat_of_nonneg h2]

end SppModel.CodecLemmas

import SppModel.Model.Fold
import SppModel.Lemmas.Reduce
import Mathlib.Tactic.Ring
import Mathlib.Tactic.FieldSimp
import Mathlib.Tactic.Linarith
import Mathlib.Algebra.Order.Field.Rat
/-! Helper lemmas for C11: flattening the per-block kernel writes, accumulation
(`applyAdd`) into a zeroed array, the `(sample, channel)` pair list, `Rat.floor` shifts. -/
namespace SppModel.Fold
open SppModel SppModel.Plan SppModel.Reduce

/-! ## The block structure flattens away -/

theorem flatMap_flatten {α γ} (bs : List α) (h : α → List (List γ)) :
    bs.flatMap (fun b => (h b).flatten) = (bs.flatMap h).flatten := by
  induction bs with
  | nil => rfl
  | cons b bs ih => simp [List.flatMap_cons, ih]

/-- `expected_flatMap` for kernels that emit a LIST of writes per sample -/
theorem expected_flatMap₂ {β} (g s n k m : Nat) (h : Accepted g n k)
    (hm : geff g n ≠ n → m = geff g n - k) (F : Nat → Nat → List β) :
    (expected g s n k).flatMap
        (fun b => (List.range (b.len - k)).flatMap (fun t => F (b.ii * m + t) (b.off + t)))
      = (List.range (n - k)).flatMap (fun j => F j (s + j)) := by
  have key := congrArg List.flatten (expected_flatMap g s n k m h hm F)
  rw [← flatMap_flatten] at key
  simp only [List.flatMap_def] at key ⊢
  exact key

/-- the gulp-free list of accumulations: one per (folded sample, channel), in order -/
def foldW (flat : List Int) (C : Nat) (delays : List Nat) (s n nbins nsubs : Nat)
    (pb si sb : List Nat) : List (Nat × Int) :=
  (List.range (n - maxDelay delays)).flatMap (fun j => (List.range C).map (fun c =>
    (cell nbins nsubs pb si sb j c, getS flat C (s + j + delays.getD c 0) c)))

theorem foldWrites_expected (flat : List Int) (C : Nat) (delays : List Nat) (g s n nbins nsubs : Nat)
    (pb si sb : List Nat) (hmd : maxDelay delays < n) (hg : 0 < g) :
    foldWrites flat C delays (maxDelay delays) (max (2 * maxDelay delays) g) nbins nsubs pb si sb
        (expected (max (2 * maxDelay delays) g) s n (maxDelay delays))
      = foldW flat C delays s n nbins nsubs pb si sb := by
  unfold foldWrites foldW
  exact expected_flatMap₂ _ s n _ _ (accepted_dedisp g n _ hmd hg) (mult_dedisp g n _)
    (fun j p => (List.range C).map (fun c =>
      (cell nbins nsubs pb si sb j c, getS flat C (p + delays.getD c 0) c)))

/-- `fold` in closed form: no gulp on the right-hand side -/
theorem fold_eq (flat : List Int) (C : Nat) (delays : List Nat) (g s n N nbins nints nsubs : Nat)
    (pb si sb : List Nat) (hmd : maxDelay delays < n) (hg : 0 < g) (hr : s + n ≤ N) :
    fold flat C delays g s n N nbins nints nsubs pb si sb
      = .ok (applyAdd (List.replicate (nbins * nints * nsubs) 0) (foldW flat C delays s n nbins nsubs pb si sb),
             applyAdd (List.replicate (nbins * nints * nsubs) 0)
               ((foldW flat C delays s n nbins nsubs pb si sb).map (fun w => (w.1, (1 : Int))))) := by
  simp only [fold, blocksOf_dedisp g s n _ N hmd hg hr, foldWrites_expected flat C delays g s n nbins nsubs pb si sb hmd hg]

/-! ## Accumulating into an array -/

theorem applyAdd_nil (out : List Int) : applyAdd out [] = out := rfl
theorem applyAdd_cons (out : List Int) (w : Nat × Int) (ws : List (Nat × Int)) :
    applyAdd out (w :: ws) = applyAdd (out.set w.1 (out.getD w.1 0 + w.2)) ws := rfl

theorem applyAdd_length' (out : List Int) (ws : List (Nat × Int)) : (applyAdd out ws).length = out.length := by
  induction ws generalizing out with
  | nil => rfl
  | cons w ws ih => rw [applyAdd_cons, ih, List.length_set]

/-- the cell `k` of the result is its old content plus every value written to `k` -/
theorem applyAdd_getD (out : List Int) (ws : List (Nat × Int)) (k : Nat) (hk : k < out.length) :
    (applyAdd out ws).getD k 0 = out.getD k 0 + ((ws.filter (fun w => w.1 == k)).map (·.2)).sum := by
  induction ws generalizing out with
  | nil => simp [applyAdd_nil]
  | cons w ws ih =>
    obtain ⟨i, v⟩ := w
    rw [applyAdd_cons, ih _ (by rw [List.length_set]; exact hk)]
    by_cases h : i = k
    · subst h
      simp only [List.getD_eq_getElem?_getD, List.getElem?_set_self hk, Option.getD_some,
        List.filter_cons, beq_self_eq_true, ↓reduceIte, List.map_cons, List.sum_cons]
      omega
    · have hb : (i == k) = false := by simpa using h
      simp only [List.getD_eq_getElem?_getD, List.getElem?_set_ne h, List.filter_cons, hb,
        Bool.false_eq_true, ↓reduceIte]

theorem sum_set_add (l : List Int) (i : Nat) (hi : i < l.length) (v : Int) :
    (l.set i (l.getD i 0 + v)).sum = l.sum + v := by
  induction l generalizing i with
  | nil => simp at hi
  | cons a l ih =>
    cases i with
    | zero => simp only [List.set_cons_zero, List.getD_cons_zero, List.sum_cons]; omega
    | succ i =>
      simp only [List.set_cons_succ, List.sum_cons, List.getD_cons_succ, List.length_cons] at *
      rw [ih i (by omega)]; omega

/-- every in-range accumulation raises the total by its value -/
theorem applyAdd_sum (out : List Int) (ws : List (Nat × Int)) (hin : ∀ w ∈ ws, w.1 < out.length) :
    (applyAdd out ws).sum = out.sum + (ws.map (·.2)).sum := by
  induction ws generalizing out with
  | nil => simp [applyAdd_nil]
  | cons w ws ih =>
    rw [applyAdd_cons, ih _ (by
      intro w' hw'; rw [List.length_set]; exact hin w' (List.mem_cons_of_mem _ hw'))]
    rw [sum_set_add _ _ (hin w List.mem_cons_self)]
    simp only [List.map_cons, List.sum_cons]; omega

theorem sum_replicate_zero (n : Nat) : (List.replicate n (0 : Int)).sum = 0 := by
  induction n with
  | zero => rfl
  | succ n ih => simp [List.replicate_succ, ih]

theorem getD_replicate_zero (n k : Nat) : (List.replicate n (0 : Int)).getD k 0 = 0 := by
  by_cases h : k < n <;> simp [List.getD_eq_getElem?_getD, h]

theorem sum_map_one {α} (l : List α) : (l.map (fun _ => (1 : Int))).sum = (l.length : Int) := by
  induction l with
  | nil => rfl
  | cons a l ih => simp only [List.map_cons, List.sum_cons, ih, List.length_cons]; omega

/-- keyed accumulation into a zeroed array: cell `k` holds the sum of `val` over the entries with key `k` -/
theorem applyAdd_keyed {α} (size : Nat) (P : List α) (key : α → Nat) (val : α → Int) (k : Nat) (hk : k < size) :
    (applyAdd (List.replicate size 0) (P.map (fun p => (key p, val p)))).getD k 0
      = ((P.filter (fun p => key p == k)).map val).sum := by
  rw [applyAdd_getD _ _ _ (by simpa using hk), getD_replicate_zero, Int.zero_add, List.filter_map,
    List.map_map]
  rfl

/-! ## The (sample, channel) pairs -/

/-- all (folded sample, channel) pairs in kernel order -/
def pairs (m C : Nat) : List (Nat × Nat) :=
  (List.range m).flatMap (fun j => (List.range C).map (fun c => (j, c)))

theorem pairs_length (m C : Nat) : (pairs m C).length = m * C := by
  unfold pairs
  induction m with
  | zero => simp
  | succ m ih =>
    rw [List.range_succ, List.flatMap_append, List.length_append, ih]
    simp [Nat.add_mul]

theorem mem_pairs (m C : Nat) (p : Nat × Nat) : p ∈ pairs m C ↔ p.1 < m ∧ p.2 < C := by
  obtain ⟨j, c⟩ := p
  simp only [pairs, List.mem_flatMap, List.mem_range, List.mem_map, Prod.mk.injEq]
  constructor
  · rintro ⟨a, ha, b, hb, rfl, rfl⟩; exact ⟨ha, hb⟩
  · rintro ⟨h1, h2⟩; exact ⟨j, h1, c, h2, rfl, rfl⟩

theorem flatMap_eq_map_pairs {β} (m C : Nat) (H : Nat → Nat → β) :
    (List.range m).flatMap (fun j => (List.range C).map (fun c => H j c))
      = (pairs m C).map (fun p => H p.1 p.2) := by
  unfold pairs
  rw [List.map_flatMap]
  simp only [List.map_map]
  rfl

theorem foldW_eq_map_pairs (flat : List Int) (C : Nat) (delays : List Nat) (s n nbins nsubs : Nat)
    (pb si sb : List Nat) :
    foldW flat C delays s n nbins nsubs pb si sb
      = (pairs (n - maxDelay delays) C).map (fun p =>
          (cell nbins nsubs pb si sb p.1 p.2, getS flat C (s + p.1 + delays.getD p.2 0) p.2)) :=
  flatMap_eq_map_pairs _ _ (fun j c => (cell nbins nsubs pb si sb j c, getS flat C (s + j + delays.getD c 0) c))

/-! ## `Rat.floor` -/

theorem ratFloor_eq {q : ℚ} {z : ℤ} (h1 : (z : ℚ) ≤ q) (h2 : q < (z : ℚ) + 1) : q.floor = z := by
  have a : z ≤ q.floor := Rat.le_floor_iff.mpr h1
  have b : q.floor < z + 1 := Rat.floor_lt_iff.mpr (by push_cast; exact h2)
  omega

/-- adding an integer shifts the floor -/
theorem ratFloor_add_int (q : ℚ) (z : ℤ) : (q + (z : ℚ)).floor = q.floor + z := by
  have h1 : ((q.floor : ℤ) : ℚ) ≤ q := Rat.le_floor_iff.mp (Int.le_refl _)
  have h2 : q < ((q.floor + 1 : ℤ) : ℚ) := Rat.floor_lt_iff.mp (by omega)
  push_cast at h2
  apply ratFloor_eq
  · push_cast; linarith
  · push_cast; linarith

end SppModel.Fold

import SppModel.Model.Robust
import Mathlib.Tactic.Ring
import Mathlib.Tactic.FieldSimp
import Mathlib.Tactic.Linarith
import Mathlib.Algebra.BigOperators.Group.List.Basic
import Mathlib.Algebra.Order.Field.Rat
import Mathlib.Data.List.GetD
import Mathlib.Data.List.Sort
import Mathlib.Algebra.BigOperators.Ring.List
/-! Helper lemmas for C15: order statistics of ℚ-lists under affine maps and reversal. -/
namespace SppModel.Robust

/-- the affine image `a·x + b` of a data vector -/
def aff (a b : ℚ) (xs : List ℚ) : List ℚ := xs.map (fun x => a * x + b)

@[simp] theorem aff_length (a b : ℚ) (xs : List ℚ) : (aff a b xs).length = xs.length := by
  simp [aff]

theorem aff_ne_nil {a b : ℚ} {xs : List ℚ} (h : xs ≠ []) : aff a b xs ≠ [] := by
  cases xs with
  | nil => exact absurd rfl h
  | cons x xs => simp [aff]

/-! ### absQ -/

theorem absQ_of_pos {a : ℚ} (h : 0 < a) : absQ a = a := by
  unfold absQ; rw [if_neg (not_lt.mpr h.le)]
theorem absQ_of_neg {a : ℚ} (h : a < 0) : absQ a = -a := by
  unfold absQ; rw [if_pos h]
theorem absQ_pos {a : ℚ} (h : a ≠ 0) : 0 < absQ a := by
  rcases lt_or_gt_of_ne h with h | h
  · rw [absQ_of_neg h]; linarith
  · rw [absQ_of_pos h]; exact h
theorem absQ_ne_zero {a : ℚ} (h : a ≠ 0) : absQ a ≠ 0 := (absQ_pos h).ne'
theorem absQ_mul (a x : ℚ) : absQ (a * x) = absQ a * absQ x := by
  unfold absQ
  rcases lt_trichotomy a 0 with ha | ha | ha <;> rcases lt_trichotomy x 0 with hx | hx | hx
  · rw [if_pos ha, if_pos hx, if_neg (not_lt.mpr (mul_pos_of_neg_of_neg ha hx).le)]; ring
  · subst hx; simp
  · rw [if_pos ha, if_neg (not_lt.mpr hx.le), if_pos (mul_neg_of_neg_of_pos ha hx)]; ring
  · subst ha; simp
  · subst ha; simp
  · subst ha; simp
  · rw [if_neg (not_lt.mpr ha.le), if_pos hx, if_pos (mul_neg_of_pos_of_neg ha hx)]; ring
  · subst hx; simp
  · rw [if_neg (not_lt.mpr ha.le), if_neg (not_lt.mpr hx.le), if_neg (not_lt.mpr (mul_pos ha hx).le)]
theorem absQ_aff_sub (a b x y : ℚ) : absQ (a * x + b - (a * y + b)) = absQ a * absQ (x - y) := by
  rw [← absQ_mul]; congr 1; ring

/-! ### sorting -/

theorem sortQ_perm (xs : List ℚ) : (sortQ xs).Perm xs := List.mergeSort_perm _ _

theorem sortQ_sorted (xs : List ℚ) : (sortQ xs).Pairwise (· ≤ ·) := by
  have h := List.pairwise_mergeSort (le := fun a b : ℚ => decide (a ≤ b))
    (by intro a b c h1 h2; simp only [decide_eq_true_eq] at *; exact le_trans h1 h2)
    (by intro a b; simp only [Bool.or_eq_true, decide_eq_true_eq]; exact le_total a b) xs
  unfold sortQ
  exact h.imp (by intro a b hab; simpa using hab)

/-- a sorted permutation of `xs` IS `sortQ xs` -/
theorem sortQ_eq_of_perm_sorted {xs l : List ℚ} (hp : l.Perm xs) (hs : l.Pairwise (· ≤ ·)) :
    sortQ xs = l := by
  refine List.Perm.eq_of_pairwise (le := (· ≤ ·)) ?_ (sortQ_sorted xs) hs ((sortQ_perm xs).trans hp.symm)
  intro a b _ _ h1 h2; exact le_antisymm h1 h2

/-- `sortQ` computes the same list as the structurally recursive insertion sort (which, unlike
the well-founded `mergeSort`, reduces in the kernel — used for the concrete `example`s) -/
theorem sortQ_eq_insertionSort (xs : List ℚ) : sortQ xs = xs.insertionSort (· ≤ ·) :=
  sortQ_eq_of_perm_sorted (List.perm_insertionSort _ _) (List.pairwise_insertionSort _ _)

theorem sortQ_length_lem (xs : List ℚ) : (sortQ xs).length = xs.length := (sortQ_perm xs).length_eq

theorem sortQ_ne_nil {xs : List ℚ} (h : xs ≠ []) : sortQ xs ≠ [] := by
  intro h'; apply h; apply List.eq_nil_of_length_eq_zero
  rw [← sortQ_length_lem, h']; rfl

theorem sortQ_aff_pos_lem (a b : ℚ) (ha : 0 < a) (xs : List ℚ) :
    sortQ (aff a b xs) = aff a b (sortQ xs) := by
  apply sortQ_eq_of_perm_sorted
  · exact (sortQ_perm xs).map _
  · unfold aff
    rw [List.pairwise_map]
    exact (sortQ_sorted xs).imp (by intro x y hxy; nlinarith)

theorem sortQ_aff_neg_lem (a b : ℚ) (ha : a < 0) (xs : List ℚ) :
    sortQ (aff a b xs) = (aff a b (sortQ xs)).reverse := by
  apply sortQ_eq_of_perm_sorted
  · exact (List.reverse_perm _).trans ((sortQ_perm xs).map _)
  · unfold aff
    rw [List.pairwise_reverse, List.pairwise_map]
    exact (sortQ_sorted xs).imp (by intro x y hxy; nlinarith)

theorem sortQ_replicate (c : ℚ) (n : Nat) : sortQ (List.replicate n c) = List.replicate n c := by
  apply sortQ_eq_of_perm_sorted (List.Perm.refl _)
  rw [List.pairwise_replicate]; right; exact le_refl c

/-! ### indexing -/

theorem getD_aff (a b : ℚ) (s : List ℚ) (i : Nat) (d : ℚ) :
    (aff a b s).getD i (a * d + b) = a * s.getD i d + b := by
  unfold aff; exact List.getD_map (l := s) (d := d) (fun x => a * x + b)

theorem getD_eq_of_lt {s : List ℚ} {i : Nat} (h : i < s.length) (d d' : ℚ) :
    s.getD i d = s.getD i d' := by
  simp [List.getD_eq_getElem?_getD, List.getElem?_eq_getElem h]

theorem getD_aff_lt (a b : ℚ) {s : List ℚ} {i : Nat} (h : i < s.length) :
    (aff a b s).getD i 0 = a * s.getD i 0 + b := by
  rw [getD_eq_of_lt (by simpa using h) 0 (a * 0 + b), getD_aff]

theorem getD_scale (a : ℚ) (s : List ℚ) (i : Nat) :
    (aff a 0 s).getD i 0 = a * s.getD i 0 := by
  have := getD_aff a 0 s i 0
  simpa using this

theorem getD_reverse_lt {s : List ℚ} {i : Nat} (h : i < s.length) (d : ℚ) :
    s.reverse.getD i d = s.getD (s.length - 1 - i) d := by
  rw [List.getD_reverse i h]

/-! ### median -/

/-- median of an already sorted list -/
def medS (s : List ℚ) : ℚ :=
  if s.length % 2 = 1 then s.getD (s.length / 2) 0
  else (s.getD (s.length / 2 - 1) 0 + s.getD (s.length / 2) 0) / 2

theorem median_eq (xs : List ℚ) : median xs = medS (sortQ xs) := rfl

theorem medS_aff (a b : ℚ) {s : List ℚ} (h : s ≠ []) : medS (aff a b s) = a * medS s + b := by
  have hn : 0 < s.length := List.length_pos_of_ne_nil h
  unfold medS
  rw [aff_length]
  split
  · rw [getD_aff_lt a b (by omega)]
  · rw [getD_aff_lt a b (by omega), getD_aff_lt a b (by omega)]; ring

theorem medS_reverse (s : List ℚ) : medS s.reverse = medS s := by
  rcases Nat.eq_zero_or_pos s.length with h0 | hn
  · rw [List.eq_nil_of_length_eq_zero h0]; rfl
  unfold medS
  rw [List.length_reverse]
  split
  · rw [getD_reverse_lt (by omega)]; congr 1; omega
  · rw [getD_reverse_lt (by omega), getD_reverse_lt (by omega)]
    have e1 : s.length - 1 - (s.length / 2 - 1) = s.length / 2 := by omega
    have e2 : s.length - 1 - s.length / 2 = s.length / 2 - 1 := by omega
    rw [e1, e2]; ring

theorem median_aff_lem (a b : ℚ) (ha : a ≠ 0) (xs : List ℚ) (h : xs ≠ []) :
    median (aff a b xs) = a * median xs + b := by
  rw [median_eq, median_eq]
  rcases lt_or_gt_of_ne ha with ha | ha
  · rw [sortQ_aff_neg_lem a b ha, medS_reverse, medS_aff a b (sortQ_ne_nil h)]
  · rw [sortQ_aff_pos_lem a b ha, medS_aff a b (sortQ_ne_nil h)]

/-! ### mean / variance -/

theorem sum_aff (a b : ℚ) (xs : List ℚ) : (aff a b xs).sum = a * xs.sum + xs.length * b := by
  induction xs with
  | nil => simp [aff]
  | cons x xs ih =>
    unfold aff at ih ⊢
    rw [List.map_cons, List.sum_cons, ih, List.sum_cons, List.length_cons]; push_cast; ring

theorem mean_aff_lem (a b : ℚ) (xs : List ℚ) (h : xs ≠ []) : mean (aff a b xs) = a * mean xs + b := by
  have hn : (xs.length : ℚ) ≠ 0 := by
    have := List.length_pos_of_ne_nil h
    exact_mod_cast this.ne'
  unfold mean
  rw [sum_aff, aff_length]; field_simp

/-! ### percentile -/

theorem floor_toNat_eq {v : ℚ} {k : Nat} (h1 : (k : ℚ) ≤ v) (h2 : v < k + 1) : v.floor.toNat = k := by
  have hk : v.floor = (k : ℤ) := by
    apply le_antisymm
    · have : v.floor < (k : ℤ) + 1 := Rat.floor_lt_iff.mpr (by push_cast; exact h2)
      omega
    · exact Rat.le_floor_iff.mpr (by push_cast; exact h1)
  rw [hk]; rfl

theorem floor_toNat_spec {v : ℚ} (hv : 0 ≤ v) :
    (v.floor.toNat : ℚ) ≤ v ∧ v < (v.floor.toNat : ℚ) + 1 := by
  have h0 : 0 ≤ v.floor := Rat.le_floor_iff.mpr (by simpa using hv)
  have hc : ((v.floor.toNat : ℕ) : ℤ) = v.floor := Int.toNat_of_nonneg h0
  have h1 : ((v.floor : ℤ) : ℚ) ≤ v := Rat.le_floor_iff.mp le_rfl
  have h2 : v < ((v.floor + 1 : ℤ) : ℚ) := Rat.floor_lt_iff.mp (by omega)
  have hq : ((v.floor.toNat : ℕ) : ℚ) = ((v.floor : ℤ) : ℚ) := by rw [← Int.cast_natCast, hc]
  rw [hq]; push_cast at h2; exact ⟨h1, h2⟩

/-- linear-interpolation percentile of an already sorted list -/
def percS (s : List ℚ) (p : ℚ) : ℚ :=
  let v : ℚ := p * ((s.length : ℚ) - 1)
  let lo := v.floor.toNat
  let frac := v - (lo : ℚ)
  s.getD lo 0 + frac * (s.getD (lo + 1) (s.getD lo 0) - s.getD lo 0)

theorem percentile_eq (xs : List ℚ) (p : ℚ) : percentile xs p = percS (sortQ xs) p := rfl

theorem percS_of_bounds {s : List ℚ} {p : ℚ} {n k : Nat} (hlen : s.length = n)
    (h1 : (k : ℚ) ≤ p * ((n : ℚ) - 1)) (h2 : p * ((n : ℚ) - 1) < k + 1) :
    percS s p = s.getD k 0 + (p * ((n : ℚ) - 1) - k) * (s.getD (k + 1) (s.getD k 0) - s.getD k 0) := by
  subst hlen; simp only [percS]; rw [floor_toNat_eq h1 h2]

theorem percS_aff (a b : ℚ) {s : List ℚ} {p : ℚ} (hp0 : 0 ≤ p) (hp1 : p ≤ 1) (h : s ≠ []) :
    percS (aff a b s) p = a * percS s p + b := by
  have hn : 0 < s.length := List.length_pos_of_ne_nil h
  have hnq : (1 : ℚ) ≤ s.length := by exact_mod_cast hn
  have hv0 : 0 ≤ p * ((s.length : ℚ) - 1) := mul_nonneg hp0 (by linarith)
  have hv1 : p * ((s.length : ℚ) - 1) ≤ s.length - 1 := by nlinarith
  obtain ⟨hl1, hl2⟩ := floor_toNat_spec hv0
  have hlo : (p * ((s.length : ℚ) - 1)).floor.toNat < s.length := by
    have : ((p * ((s.length : ℚ) - 1)).floor.toNat : ℚ) < s.length := by linarith
    exact_mod_cast this
  simp only [percS, aff_length]
  rw [getD_aff_lt a b hlo, getD_aff]; ring

theorem percS_reverse (s : List ℚ) (p : ℚ) (hp0 : 0 ≤ p) (hp1 : p ≤ 1) (h : s ≠ []) :
    percS s.reverse p = percS s (1 - p) := by
  obtain ⟨n, hlen⟩ : ∃ n, s.length = n := ⟨_, rfl⟩
  have hlenr : s.reverse.length = n := by rw [List.length_reverse, hlen]
  have hn : 0 < n := hlen ▸ List.length_pos_of_ne_nil h
  have hnq : (1 : ℚ) ≤ n := by exact_mod_cast hn
  obtain ⟨v, hv⟩ : ∃ v, p * ((n : ℚ) - 1) = v := ⟨_, rfl⟩
  have hv' : (1 - p) * ((n : ℚ) - 1) = (n : ℚ) - 1 - v := by rw [← hv]; ring
  have hv0 : 0 ≤ v := by rw [← hv]; exact mul_nonneg hp0 (by linarith)
  have hv1 : v ≤ n - 1 := by rw [← hv]; nlinarith
  obtain ⟨hl1, hl2⟩ := floor_toNat_spec hv0
  obtain ⟨lo, hlo_def⟩ : ∃ lo, v.floor.toNat = lo := ⟨_, rfl⟩
  rw [hlo_def] at hl1 hl2
  have hlo : lo < n := by
    have : (lo : ℚ) < n := by linarith
    exact_mod_cast this
  rcases eq_or_lt_of_le hl1 with heq | hlt
  · have hc : ((n - 1 - lo : ℕ) : ℚ) = (n : ℚ) - 1 - lo := by
      rw [Nat.cast_sub (by omega), Nat.cast_sub (by omega)]; simp
    rw [percS_of_bounds (k := lo) hlenr (by rw [hv]; exact hl1) (by rw [hv]; exact hl2),
      percS_of_bounds (k := n - 1 - lo) hlen (by rw [hv', hc]; linarith) (by rw [hv', hc]; linarith),
      hv, hv', hc, ← heq, getD_reverse_lt (by omega), hlen]
    ring
  · have hlo2 : lo + 1 < n := by
      have : (lo : ℚ) + 1 < n := by linarith
      exact_mod_cast this
    have hc : ((n - 2 - lo : ℕ) : ℚ) = (n : ℚ) - 2 - lo := by
      rw [Nat.cast_sub (by omega), Nat.cast_sub (by omega)]; simp
    rw [percS_of_bounds (k := lo) hlenr (by rw [hv]; exact hl1) (by rw [hv]; exact hl2),
      percS_of_bounds (k := n - 2 - lo) hlen (by rw [hv', hc]; linarith) (by rw [hv', hc]; linarith),
      hv, hv', hc]
    have e1 : s.reverse.getD lo 0 = s.getD (n - 1 - lo) 0 := by
      rw [getD_reverse_lt (by omega), hlen]
    have e2 : ∀ d, s.reverse.getD (lo + 1) d = s.getD (n - 2 - lo) 0 := by
      intro d
      have : n - 1 - (lo + 1) = n - 2 - lo := by omega
      rw [getD_reverse_lt (by omega), hlen, this, getD_eq_of_lt (by omega) d 0]
    have e3 : ∀ d, s.getD (n - 2 - lo + 1) d = s.getD (n - 1 - lo) 0 := by
      intro d
      have : n - 2 - lo + 1 = n - 1 - lo := by omega
      rw [this, getD_eq_of_lt (by omega) d 0]
    rw [e1, e2, e3]; ring

theorem percentile_aff_pos (a b : ℚ) (ha : 0 < a) (xs : List ℚ) (h : xs ≠ []) {p : ℚ}
    (hp0 : 0 ≤ p) (hp1 : p ≤ 1) : percentile (aff a b xs) p = a * percentile xs p + b := by
  rw [percentile_eq, percentile_eq, sortQ_aff_pos_lem a b ha, percS_aff a b hp0 hp1 (sortQ_ne_nil h)]

theorem percentile_aff_neg (a b : ℚ) (ha : a < 0) (xs : List ℚ) (h : xs ≠ []) {p : ℚ}
    (hp0 : 0 ≤ p) (hp1 : p ≤ 1) : percentile (aff a b xs) p = a * percentile xs (1 - p) + b := by
  rw [percentile_eq, percentile_eq, sortQ_aff_neg_lem a b ha,
    percS_reverse _ p hp0 hp1 (aff_ne_nil (sortQ_ne_nil h)),
    percS_aff a b (by linarith) (by linarith) (sortQ_ne_nil h)]

/-! ### absolute deviations -/

theorem map_absdev_aff (a b c : ℚ) (xs : List ℚ) :
    (aff a b xs).map (fun x => absQ (x - (a * c + b))) = aff (absQ a) 0 (xs.map (fun x => absQ (x - c))) := by
  unfold aff; rw [List.map_map, List.map_map]
  apply List.map_congr_left; intro x _
  simp only [Function.comp]; rw [absQ_aff_sub]; ring

/-! ### pairwise differences -/

theorem pairDiffs_aff (a b : ℚ) (xs : List ℚ) :
    pairDiffs (aff a b xs) = aff (absQ a) 0 (pairDiffs xs) := by
  induction xs with
  | nil => rfl
  | cons x rest ih =>
    have ih' : pairDiffs (List.map (fun x => a * x + b) rest)
        = List.map (fun x => absQ a * x + 0) (pairDiffs rest) := ih
    unfold aff
    rw [List.map_cons, pairDiffs, pairDiffs, List.map_append, ih', List.map_map, List.map_map]
    congr 1
    apply List.map_congr_left; intro y _
    simp only [Function.comp]; rw [absQ_aff_sub]; ring

/-! ### gapper -/

/-- weighted gap sum of an already sorted list -/
def gapS (s : List ℚ) : ℚ :=
  ((List.range (s.length - 1)).map (fun i =>
    (((i + 1) * (s.length - 1 - i) : Nat) : ℚ) * (s.getD (i + 1) 0 - s.getD i 0))).sum

theorem gapper_eq (c : ℚ) (xs : List ℚ) :
    gapper c xs = gapS (sortQ xs) * c / (((sortQ xs).length * ((sortQ xs).length - 1) : Nat) : ℚ) := rfl

theorem gapS_aff (a b : ℚ) (s : List ℚ) : gapS (aff a b s) = a * gapS s := by
  unfold gapS
  rw [aff_length, ← List.sum_map_mul_left]
  congr 1
  apply List.map_congr_left; intro i hi
  rw [List.mem_range] at hi
  rw [getD_aff_lt a b (by omega), getD_aff_lt a b (by omega)]; ring

theorem sum_range_reflect (f : Nat → ℚ) (m : Nat) :
    ((List.range m).map (fun i => f (m - 1 - i))).sum = ((List.range m).map f).sum := by
  have hr : (List.range m).reverse = (List.range m).map (fun i => m - 1 - i) := by
    rw [List.range_eq_range', List.reverse_range', ← List.range_eq_range']
    apply List.map_congr_left; intro i _; omega
  have h : (List.range m).map (fun i => f (m - 1 - i)) = ((List.range m).map f).reverse := by
    rw [← List.map_reverse, hr, List.map_map]; rfl
  rw [h]; exact (List.reverse_perm _).sum_eq

theorem gapS_reverse (s : List ℚ) : gapS s.reverse = - gapS s := by
  obtain ⟨n, hlen⟩ : ∃ n, s.length = n := ⟨_, rfl⟩
  unfold gapS
  rw [List.length_reverse, hlen,
    ← sum_range_reflect (fun i => (((i + 1) * (n - 1 - i) : Nat) : ℚ) * (s.getD (i + 1) 0 - s.getD i 0)),
    ← neg_one_mul, ← List.sum_map_mul_left]
  congr 1
  apply List.map_congr_left; intro i hi
  rw [List.mem_range] at hi
  have e1 : n - 1 - (i + 1) = n - 1 - 1 - i := by omega
  have e2 : n - 1 - i = n - 1 - 1 - i + 1 := by omega
  have e3 : (i + 1) * (n - 1 - i) = (n - 1 - 1 - i + 1) * (n - 1 - (n - 1 - 1 - i)) := by
    have : n - 1 - (n - 1 - 1 - i) = i + 1 := by omega
    rw [this, ← e2, Nat.mul_comm]
  rw [getD_reverse_lt (by omega), getD_reverse_lt (by omega), hlen, e1, ← e3, ← e2]; ring

end SppModel.Robust

import SppModel.Model.MatchedFilter
import SppModel.Lemmas.Dedisp
import Mathlib.Algebra.BigOperators.Group.List.Basic
import Mathlib.Tactic.Positivity
/-! Helper lemmas for C13: `roll` is a `List.rotate`, index forms of `cconv` /
`prepTemplate`, re-indexing a sum over `List.range n` by a cyclic shift, the
`argmaxFirst` fold invariant, rectangular `flatten` indexing and a list form of
Cauchy–Schwarz over ℚ. -/
namespace SppModel.MatchedFilter
open SppModel SppModel.Dedisp

/-! ## generic `getD` helpers -/

theorem getD_eq_of_getElem? {α} {l₁ l₂ : List α} {i j : Nat} (a : α) (h : l₁[i]? = l₂[j]?) :
    l₁.getD i a = l₂.getD j a := by
  simp only [List.getD_eq_getElem?_getD, h]

theorem getD_map_lt {α β} (f : α → β) (l : List α) (i : Nat) (a : α) (b : β) (hi : i < l.length) :
    (l.map f).getD i b = f (l.getD i a) := by
  simp [List.getD_eq_getElem?_getD, hi]

theorem sum_range_getD (l : List Rat) : ((List.range l.length).map (fun k => l.getD k 0)).sum = l.sum := by
  rw [map_range_getD]

/-! ## `roll` is a rotation -/

theorem roll_eq_rotate (xs : List Rat) (s : Int) :
    roll xs s = xs.rotate (xs.length - (s % (xs.length : Int)).toNat) := by
  unfold roll
  simp only []
  split_ifs with h
  · rw [h, Nat.sub_zero, List.rotate_length]
  · rw [List.rotate_eq_drop_append_take (Nat.sub_le _ _)]

theorem roll_length' (xs : List Rat) (s : Int) : (roll xs s).length = xs.length := by
  rw [roll_eq_rotate, List.length_rotate]

theorem roll_get? (xs : List Rat) (s : Int) (t : Nat) (ht : t < xs.length) :
    (roll xs s)[t]? = xs[(((t : Int) - s) % (xs.length : Int)).toNat]? := by
  have h := roll_index xs.length t (-s) ht
  rw [Int.neg_neg] at h
  rw [roll_eq_rotate, List.getElem?_rotate ht, h]
  rfl

theorem roll_getD (xs : List Rat) (s : Int) (t : Nat) (ht : t < xs.length) :
    (roll xs s).getD t 0 = xs.getD ((((t : Int) - s) % (xs.length : Int)).toNat) 0 :=
  getD_eq_of_getElem? 0 (roll_get? xs s t ht)

theorem emod_toNat_lt (a : Int) (n : Nat) (hn : 0 < n) : (a % (n : Int)).toNat < n := by
  have hn' : (0 : Int) < n := by omega
  have h0 := Int.emod_nonneg a hn'.ne'
  have h1 := Int.emod_lt_of_pos a hn'
  omega

/-! ## `padTemplate`, `prepTemplate` -/

theorem padTemplate_length (n : Nat) (kernel : List Rat) : (padTemplate n kernel).length = n := by
  simp [padTemplate]

theorem normTemplate_length (n : Nat) (kernel : List Rat) (mu sigma : Rat) :
    (normTemplate n kernel mu sigma).length = n := by
  simp [normTemplate, padTemplate_length]

theorem prepTemplate_length' (n : Nat) (kernel : List Rat) (ref : Nat) (mu sigma : Rat) :
    (prepTemplate n kernel ref mu sigma).length = n := by
  simp [prepTemplate, roll_length', padTemplate_length]

/-- index arithmetic of "align, reverse, roll by one" -/
theorem prep_index (n ref j : Nat) (hj : j < n) :
    ((((n - 1 - (((j : Int) - 1) % (n : Int)).toNat : Nat) : Int) - (-(ref : Int))) % (n : Int))
      = ((ref : Int) - (j : Int)) % (n : Int) := by
  have hn : (0 : Int) < n := by omega
  rcases Nat.eq_zero_or_pos j with rfl | hpos
  · have h1 : ((0 : Nat) : Int) - 1 = -1 := by simp
    have hm : (-1 : Int) % (n : Int) = n - 1 := emod_unique (q := -1) (by omega) (by omega) (by ring)
    rw [h1, hm]
    have : (n - 1 - ((n : Int) - 1).toNat : Nat) = 0 := by omega
    rw [this]
    simp
  · have hm : ((j : Int) - 1) % (n : Int) = j - 1 := Int.emod_eq_of_lt (by omega) (by omega)
    rw [hm]
    have : ((n - 1 - ((j : Int) - 1).toNat : Nat) : Int) = (n : Int) - j := by omega
    rw [this]
    have e : (n : Int) - j - (-(ref : Int)) = ((ref : Int) - j) + (n : Int) * 1 := by ring
    rw [e, Int.add_mul_emod_self_left]

theorem prepTemplate_getD (n : Nat) (kernel : List Rat) (ref : Nat) (mu sigma : Rat) (j : Nat) (hj : j < n) :
    (prepTemplate n kernel ref mu sigma).getD j 0
      = (normTemplate n kernel mu sigma).getD ((((ref : Int) - (j : Int)) % (n : Int)).toNat) 0 := by
  have hlen := padTemplate_length n kernel
  have hidx := emod_toNat_lt ((ref : Int) - j) n (by omega)
  have hidx1 := emod_toNat_lt ((j : Int) - 1) n (by omega)
  unfold prepTemplate normTemplate
  simp only []
  have hrl : (roll (roll (padTemplate n kernel) (-(ref : Int))).reverse 1).length = n := by
    rw [roll_length', List.length_reverse, roll_length', hlen]
  rw [getD_map_lt _ _ j 0 0 (by omega), getD_map_lt _ _ _ 0 0 (by omega)]
  congr 2
  rw [roll_getD _ _ _ (by rw [List.length_reverse, roll_length', hlen]; exact hj)]
  rw [List.length_reverse, roll_length', hlen]
  have hrev : ∀ i, i < n → (roll (padTemplate n kernel) (-(ref : Int))).reverse.getD i 0
      = (roll (padTemplate n kernel) (-(ref : Int))).getD (n - 1 - i) 0 := by
    intro i hi
    apply getD_eq_of_getElem?
    rw [List.getElem?_reverse (by rw [roll_length', hlen]; exact hi), roll_length', hlen]
  rw [hrev _ hidx1, roll_getD _ _ _ (by rw [hlen]; omega), hlen, prep_index n ref j hj]

/-! ## re-indexing a sum over `range n` by a cyclic shift -/

theorem range_shift_eq_rotate (n : Nat) (c : Int) (hn : 0 < n) :
    (List.range n).map (fun (k : Nat) => (((k : Int) + c) % (n : Int)).toNat)
      = (List.range n).rotate ((c % (n : Int)).toNat) := by
  have hn' : (0 : Int) < n := by omega
  apply List.ext_getElem
  · simp
  · intro k h1 h2
    have hk : k < n := by simpa using h1
    rw [List.getElem_map, List.getElem_range, List.getElem_rotate, List.getElem_range, List.length_range]
    have h0 := Int.emod_nonneg c hn'.ne'
    have g0 := Int.emod_nonneg ((k : Int) + c) hn'.ne'
    suffices h : ((k : Int) + c) % (n : Int) = (((k + (c % (n : Int)).toNat) % n : Nat) : Int) by omega
    rw [Int.natCast_mod]
    push_cast
    rw [Int.toNat_of_nonneg h0, Int.add_emod_emod]

theorem sum_range_reindex (n : Nat) (c : Int) (f : Nat → Rat) :
    ((List.range n).map f).sum
      = ((List.range n).map (fun (k : Nat) => f ((((k : Int) + c) % (n : Int)).toNat))).sum := by
  rcases Nat.eq_zero_or_pos n with rfl | hn
  · simp
  · have h : (List.range n).map (fun (k : Nat) => f ((((k : Int) + c) % (n : Int)).toNat))
        = ((List.range n).map (fun (k : Nat) => (((k : Int) + c) % (n : Int)).toNat)).map f := by
      rw [List.map_map]; rfl
    rw [h, range_shift_eq_rotate n c hn]
    exact (((List.rotate_perm _ _).map f).sum_eq).symm

/-! ## `cconv` -/

theorem cconv_length (n : Nat) (x y : List Rat) : (cconv n x y).length = n := by
  simp [cconv]

theorem cconv_getD (n : Nat) (x y : List Rat) (t : Nat) (ht : t < n) :
    (cconv n x y).getD t 0
      = ((List.range n).map (fun j => x.getD j 0 * y.getD ((t + n - j) % n) 0)).sum := by
  unfold cconv
  rw [getD_map_range _ _ _ _ ht]

/-! ## response = correlation -/

theorem resp_index (n ref t k : Nat) (hn : 0 < n) (hk : k < n) :
    (((ref : Int) - (((t + n - ((((k : Int) + ((t : Int) - ref)) % (n : Int)).toNat)) % n : Nat) : Int)) % (n : Int)).toNat = k := by
  have hn' : (0 : Int) < n := by omega
  have g0 := Int.emod_nonneg ((k : Int) + ((t : Int) - ref)) hn'.ne'
  have g1 := Int.emod_lt_of_pos ((k : Int) + ((t : Int) - ref)) hn'
  have hd := Int.mul_ediv_add_emod ((k : Int) + ((t : Int) - ref)) n
  generalize hm : ((k : Int) + ((t : Int) - ref)) % (n : Int) = m at *
  generalize hq : ((k : Int) + ((t : Int) - ref)) / (n : Int) = q at *
  obtain ⟨m', rfl⟩ : ∃ m' : Nat, m = m' := ⟨m.toNat, by omega⟩
  rw [Int.toNat_natCast]
  have hm' : m' < n := by omega
  rw [Int.natCast_mod]
  push_cast [Nat.cast_sub (show m' ≤ t + n by omega)]
  rw [Int.sub_emod, Int.emod_emod_of_dvd _ (dvd_refl _), ← Int.sub_emod]
  have e : (ref : Int) - ((t : Int) + n - m') = (k : Int) + (n : Int) * (-q - 1) := by
    have : (n : Int) * (-q - 1) = -((n : Int) * q) - n := by ring
    omega
  rw [e, Int.add_mul_emod_self_left, Int.emod_eq_of_lt (by omega) (by omega), Int.toNat_natCast]

theorem response_getD (data kernel : List Rat) (ref : Nat) (mu sigma : Rat) (t : Nat) (ht : t < data.length) :
    (response data kernel ref mu sigma).getD t 0 = correlationAt data kernel ref mu sigma t := by
  have hn : 0 < data.length := by omega
  unfold response correlationAt
  simp only []
  rw [cconv_getD _ _ _ _ ht]
  rw [sum_range_reindex data.length ((t : Int) - ref)]
  apply congrArg
  apply List.map_congr_left
  intro k hk
  have hk' : k < data.length := List.mem_range.mp hk
  have e1 : (k : Int) + ((t : Int) - ref) = (t : Int) + k - ref := by ring
  rw [prepTemplate_getD _ _ _ _ _ _ (Nat.mod_lt _ hn), resp_index _ _ _ _ hn hk', e1]

/-! ## `argmaxFirst` -/

def amStep (acc : Nat × Rat × Nat) (v : Rat) : Nat × Rat × Nat :=
  if v > acc.2.1 then (acc.2.2, v, acc.2.2 + 1) else (acc.1, acc.2.1, acc.2.2 + 1)

theorem argmaxFirst_cons (x : Rat) (rest : List Rat) :
    argmaxFirst (x :: rest) = (rest.foldl amStep (0, x, 1)).1 := by
  unfold argmaxFirst
  congr 2

theorem getD_append_lt (l₁ l₂ : List Rat) (i : Nat) (h : i < l₁.length) :
    (l₁ ++ l₂).getD i 0 = l₁.getD i 0 := by
  simp [List.getD_eq_getElem?_getD, List.getElem?_append_left h]

theorem amFold_spec (rest pre : List Rat) (best : Nat) (bv : Rat)
    (hb : best < pre.length) (hbv : bv = pre.getD best 0)
    (hle : ∀ i, i < pre.length → pre.getD i 0 ≤ bv)
    (hlt : ∀ i, i < best → pre.getD i 0 < bv) :
    let r := (rest.foldl amStep (best, bv, pre.length)).1
    r < (pre ++ rest).length ∧ (∀ i, i < (pre ++ rest).length → (pre ++ rest).getD i 0 ≤ (pre ++ rest).getD r 0)
      ∧ (∀ i, i < r → (pre ++ rest).getD i 0 < (pre ++ rest).getD r 0) := by
  induction rest generalizing pre best bv with
  | nil =>
    simp only [List.foldl_nil, List.append_nil]
    subst hbv
    exact ⟨hb, hle, hlt⟩
  | cons v rest ih =>
    simp only [List.foldl_cons]
    have hlen : (pre ++ [v]).length = pre.length + 1 := by simp
    have happ : pre ++ v :: rest = (pre ++ [v]) ++ rest := by simp
    have hv : (pre ++ [v]).getD pre.length 0 = v := by simp [List.getD_eq_getElem?_getD]
    rw [happ]
    by_cases hgt : v > bv
    · have hs : amStep (best, bv, pre.length) v = (pre.length, v, (pre ++ [v]).length) := by
        simp [amStep, hgt]
      rw [hs]
      apply ih (pre ++ [v]) pre.length v (by omega) hv.symm
      · intro i hi
        rcases Nat.lt_or_ge i pre.length with h | h
        · rw [getD_append_lt _ _ _ h]; exact le_trans (hle i h) (le_of_lt hgt)
        · have : i = pre.length := by omega
          rw [this, hv]
      · intro i hi
        rw [getD_append_lt _ _ _ hi]; exact lt_of_le_of_lt (hle i hi) hgt
    · have hs : amStep (best, bv, pre.length) v = (best, bv, (pre ++ [v]).length) := by
        simp [amStep, hgt]
      rw [hs]
      apply ih (pre ++ [v]) best bv (by omega) (by rw [getD_append_lt _ _ _ hb]; exact hbv)
      · intro i hi
        rcases Nat.lt_or_ge i pre.length with h | h
        · rw [getD_append_lt _ _ _ h]; exact hle i h
        · have : i = pre.length := by omega
          rw [this, hv]; exact not_lt.mp hgt
      · intro i hi
        rw [getD_append_lt _ _ _ (by omega)]; exact hlt i hi

theorem argmaxFirst_spec' (xs : List Rat) (h : xs ≠ []) :
    argmaxFirst xs < xs.length ∧ (∀ i, i < xs.length → xs.getD i 0 ≤ xs.getD (argmaxFirst xs) 0)
      ∧ (∀ i, i < argmaxFirst xs → xs.getD i 0 < xs.getD (argmaxFirst xs) 0) := by
  cases xs with
  | nil => exact absurd rfl h
  | cons x rest =>
    rw [argmaxFirst_cons]
    have := amFold_spec rest [x] 0 x (by simp) (by simp) (by
      intro i hi
      have : i = 0 := by simpa using hi
      subst this; simp) (by intro i hi; omega)
    simpa using this

/-! ## rectangular `flatten` -/

theorem flatten_length_rect (convs : List (List Rat)) (n : Nat) (hrect : ∀ r ∈ convs, r.length = n) :
    convs.flatten.length = convs.length * n := by
  induction convs with
  | nil => simp
  | cons r rs ih =>
    rw [List.flatten_cons, List.length_append, ih (fun r' hr' => hrect r' (by simp [hr'])),
      hrect r (by simp), List.length_cons, Nat.succ_mul, Nat.add_comm]

theorem flatten_getD_rect (convs : List (List Rat)) (n : Nat) (hrect : ∀ r ∈ convs, r.length = n)
    (i j : Nat) (hi : i < convs.length) (hj : j < n) :
    convs.flatten.getD (i * n + j) 0 = (convs.getD i []).getD j 0 := by
  induction convs generalizing i with
  | nil => simp at hi
  | cons r rs ih =>
    have hr : r.length = n := hrect r (by simp)
    cases i with
    | zero =>
      rw [List.flatten_cons, Nat.zero_mul, Nat.zero_add, getD_append_lt _ _ _ (by omega)]
      simp
    | succ i' =>
      have hi' : i' < rs.length := by simpa using hi
      have e : (i' + 1) * n + j = r.length + (i' * n + j) := by rw [hr, Nat.succ_mul]; omega
      rw [List.flatten_cons, e]
      have : (r ++ rs.flatten).getD (r.length + (i' * n + j)) 0 = rs.flatten.getD (i' * n + j) 0 := by
        simp [List.getD_eq_getElem?_getD, List.getElem?_append_right]
      rw [this, ih (fun r' hr' => hrect r' (by simp [hr'])) i' hi']
      simp

theorem peakOf_spec' (convs : List (List Rat)) (n : Nat) (hn : 0 < n) (hne : convs ≠ [])
    (hrect : ∀ r ∈ convs, r.length = n) :
    (peakOf convs).1 < convs.length ∧ (peakOf convs).2 < n ∧
    (∀ i j, i < convs.length → j < n →
      (convs.getD i []).getD j 0 ≤ (convs.getD (peakOf convs).1 []).getD (peakOf convs).2 0) := by
  have h0 : (convs.getD 0 []).length = n :=
    hrect _ (getD_mem_of_lt convs 0 [] (List.length_pos_iff.mpr hne))
  have hfl := flatten_length_rect convs n hrect
  have hlenpos : 0 < convs.length := List.length_pos_iff.mpr hne
  have hfne : convs.flatten ≠ [] := by
    apply List.ne_nil_of_length_pos
    rw [hfl]; exact Nat.mul_pos hlenpos hn
  obtain ⟨hk, hmax, _⟩ := argmaxFirst_spec' convs.flatten hfne
  have hpk : peakOf convs = (argmaxFirst convs.flatten / n, argmaxFirst convs.flatten % n) := by
    unfold peakOf
    simp only [h0]
    rw [if_neg (by omega)]
  rw [hpk]
  simp only []
  have hk1 : argmaxFirst convs.flatten / n < convs.length := by
    rw [Nat.div_lt_iff_lt_mul hn, ← hfl]; exact hk
  have hk2 : argmaxFirst convs.flatten % n < n := Nat.mod_lt _ hn
  refine ⟨hk1, hk2, ?_⟩
  intro i j hi hj
  rw [← flatten_getD_rect convs n hrect i j hi hj,
    ← flatten_getD_rect convs n hrect _ _ hk1 hk2, Nat.div_add_mod']
  apply hmax
  rw [hfl]
  calc i * n + j < i * n + n := by omega
    _ = (i + 1) * n := by rw [Nat.succ_mul]
    _ ≤ convs.length * n := Nat.mul_le_mul_right _ hi

/-! ## linearity of the correlation in the data -/

theorem sum_map_add (l : List Nat) (f g : Nat → Rat) :
    (l.map (fun k => f k + g k)).sum = (l.map f).sum + (l.map g).sum := by
  induction l with
  | nil => simp
  | cons a l ih => simp only [List.map_cons, List.sum_cons, ih]; ring

theorem sum_map_mul_left' (l : List Nat) (a : Rat) (f : Nat → Rat) :
    (l.map (fun k => a * f k)).sum = a * (l.map f).sum := by
  induction l with
  | nil => simp
  | cons b l ih => simp only [List.map_cons, List.sum_cons, ih]; ring

theorem getD_map_scale (l : List Rat) (a : Rat) (i : Nat) :
    (l.map (a * ·)).getD i 0 = a * l.getD i 0 := by
  simp only [List.getD_eq_getElem?_getD, List.getElem?_map]
  cases l[i]? <;> simp

theorem correlation_add_const' (data kernel : List Rat) (ref : Nat) (mu sigma c : Rat) (t : Nat)
    (hz : (normTemplate data.length kernel mu sigma).sum = 0) :
    correlationAt (data.map (· + c)) kernel ref mu sigma t = correlationAt data kernel ref mu sigma t := by
  unfold correlationAt
  simp only [List.length_map]
  rcases Nat.eq_zero_or_pos data.length with h0 | hn
  · rw [h0]; simp
  · have hstep : ∀ k ∈ List.range data.length,
        (data.map (· + c)).getD (((t : Int) + (k : Int) - (ref : Int)) % (data.length : Int)).toNat 0
            * (normTemplate data.length kernel mu sigma).getD k 0
          = data.getD (((t : Int) + (k : Int) - (ref : Int)) % (data.length : Int)).toNat 0
              * (normTemplate data.length kernel mu sigma).getD k 0
            + c * (normTemplate data.length kernel mu sigma).getD k 0 := by
      intro k _
      rw [getD_map_lt _ _ _ 0 0 (emod_toNat_lt _ _ hn)]
      ring
    rw [List.map_congr_left hstep, sum_map_add, sum_map_mul_left']
    have hs := sum_range_getD (normTemplate data.length kernel mu sigma)
    rw [normTemplate_length] at hs
    rw [hs, hz, mul_zero, add_zero]

theorem correlation_scale' (data kernel : List Rat) (ref : Nat) (mu sigma a : Rat) (t : Nat) :
    correlationAt (data.map (a * ·)) kernel ref mu sigma t = a * correlationAt data kernel ref mu sigma t := by
  unfold correlationAt
  simp only [List.length_map]
  rw [← sum_map_mul_left']
  apply congrArg
  apply List.map_congr_left
  intro k _
  rw [getD_map_scale]
  ring

theorem sum_map_affine (l : List Rat) (mu sigma : Rat) :
    (l.map (fun v => (v - mu) / sigma)).sum = (l.sum - l.length * mu) / sigma := by
  induction l with
  | nil => simp
  | cons a l ih =>
    simp only [List.map_cons, List.sum_cons, ih, List.length_cons]
    push_cast
    ring

theorem normTemplate_sum_zero' (n : Nat) (kernel : List Rat) (sigma : Rat) (hn : 0 < n) :
    (normTemplate n kernel (((padTemplate n kernel).sum) / n) sigma).sum = 0 := by
  unfold normTemplate
  rw [sum_map_affine, padTemplate_length]
  have hn' : (n : Rat) ≠ 0 := by
    have : (0 : Rat) < n := by exact_mod_cast hn
    exact ne_of_gt this
  rw [mul_div_cancel₀ _ hn', sub_self, zero_div]

/-! ## Cauchy–Schwarz over `List.range n` -/

theorem sum_sq_nonneg (l : List Nat) (f : Nat → Rat) : 0 ≤ (l.map (fun k => f k ^ 2)).sum := by
  induction l with
  | nil => simp
  | cons a l ih => simp only [List.map_cons, List.sum_cons]; positivity

theorem cauchy_schwarz_list (l : List Nat) (f g : Nat → Rat) :
    ((l.map (fun k => f k * g k)).sum) ^ 2
      ≤ (l.map (fun k => f k ^ 2)).sum * (l.map (fun k => g k ^ 2)).sum := by
  induction l with
  | nil => simp
  | cons a l ih =>
    simp only [List.map_cons, List.sum_cons]
    have hB := sum_sq_nonneg l f
    have hC := sum_sq_nonneg l g
    generalize (l.map (fun k => f k * g k)).sum = A at *
    generalize (l.map (fun k => f k ^ 2)).sum = B at *
    generalize (l.map (fun k => g k ^ 2)).sum = C at *
    generalize f a = x
    generalize g a = y
    -- 2 A x y ≤ B y² + C x²
    have key : 2 * A * (x * y) ≤ B * y ^ 2 + C * x ^ 2 := by
      have hnn : 0 ≤ B * y ^ 2 + C * x ^ 2 := by positivity
      have hsq : (2 * A * (x * y)) ^ 2 ≤ (B * y ^ 2 + C * x ^ 2) ^ 2 := by
        have h1 : (2 * A * (x * y)) ^ 2 = 4 * A ^ 2 * (x ^ 2 * y ^ 2) := by ring
        have h2 : 4 * A ^ 2 * (x ^ 2 * y ^ 2) ≤ 4 * (B * C) * (x ^ 2 * y ^ 2) := by
          have : 0 ≤ x ^ 2 * y ^ 2 := by positivity
          nlinarith [mul_le_mul_of_nonneg_right ih this]
        have h3 : 4 * (B * C) * (x ^ 2 * y ^ 2) ≤ (B * y ^ 2 + C * x ^ 2) ^ 2 := by
          nlinarith [sq_nonneg (B * y ^ 2 - C * x ^ 2)]
        linarith
      exact (abs_le_of_sq_le_sq' hsq hnn).2
    nlinarith [key]

theorem correlation_sq_le' (data kernel : List Rat) (ref : Nat) (mu sigma : Rat) (t : Nat) :
    (correlationAt data kernel ref mu sigma t) ^ 2
      ≤ ((data.map (fun x => x ^ 2)).sum)
        * (((normTemplate data.length kernel mu sigma).map (fun x => x ^ 2)).sum) := by
  unfold correlationAt
  simp only []
  refine le_trans (cauchy_schwarz_list _ _ _) ?_
  apply le_of_eq
  congr 1
  · have e : ∀ k : Nat, (t : Int) + (k : Int) - (ref : Int) = (k : Int) + ((t : Int) - ref) := by
      intro k; ring
    simp only [e]
    rw [← sum_range_reindex data.length ((t : Int) - ref) (fun j => data.getD j 0 ^ 2)]
    have := sum_range_getD (data.map (fun x => x ^ 2))
    rw [List.length_map] at this
    rw [← this]
    apply congrArg
    apply List.map_congr_left
    intro k hk
    rw [getD_map_lt _ _ _ 0 0 (List.mem_range.mp hk)]
  · have := sum_range_getD ((normTemplate data.length kernel mu sigma).map (fun x => x ^ 2))
    rw [List.length_map, normTemplate_length] at this
    rw [← this]
    apply congrArg
    apply List.map_congr_left
    intro k hk
    rw [getD_map_lt _ _ _ 0 0 (by rw [normTemplate_length]; exact List.mem_range.mp hk)]

end SppModel.MatchedFilter

/-! Index lemmas and the fixed tactic portfolio used by the GENERATED prange obligations (C19). Core Lean only. -/
namespace SppModel.Parallel

/-- `a*i + j` with `j < a` determines `i` -/
theorem idx_inj (a i i' j j' : Nat) (hj : j < a) (hj' : j' < a) (h : a * i + j = a * i' + j') : i = i' := by
  have ha : 0 < a := by omega
  have e1 : (a * i + j) / a = i := by
    rw [Nat.mul_add_div ha, Nat.div_eq_of_lt hj, Nat.add_zero]
  have e2 : (a * i' + j') / a = i' := by
    rw [Nat.mul_add_div ha, Nat.div_eq_of_lt hj', Nat.add_zero]
  rw [← e1, ← e2, h]

/-- `a*j + i` with `i < a` determines `i` (the prange variable is the fast index) -/
theorem idx_inj_low (a i i' j j' : Nat) (hi : i < a) (hi' : i' < a) (h : a * j + i = a * j' + i') : i = i' := by
  have e1 : (a * j + i) % a = i := by rw [Nat.mul_add_mod, Nat.mod_eq_of_lt hi]
  have e2 : (a * j' + i') % a = i' := by rw [Nat.mul_add_mod, Nat.mod_eq_of_lt hi']
  rw [← e1, ← e2, h]

/-- slices `[a*i, a*(i+1))` of different iterations are disjoint -/
theorem slice_disjoint (a i i' x : Nat) (h : i ≠ i') (hx : a * i ≤ x ∧ x < a * (i + 1)) :
    ¬ (a * i' ≤ x ∧ x < a * (i' + 1)) := by
  intro hx'
  rcases Nat.lt_or_gt_of_ne h with hlt | hlt
  · have : a * (i + 1) ≤ a * i' := Nat.mul_le_mul_left a hlt
    omega
  · have : a * (i' + 1) ≤ a * i := Nat.mul_le_mul_left a hlt
    omega

/-- the portfolio for scalar stores: linear shapes by `omega`, `A*i + j` shapes by `idx_inj` -/
macro "prange_inj" : tactic =>
  `(tactic| first
    | omega
    | (apply idx_inj _ _ _ _ _ ?_ ?_ (by simpa [Nat.mul_comm, Nat.add_comm, Nat.add_left_comm, Nat.mul_left_comm] using ‹_ = _›) <;> first | assumption | (apply_assumption) | omega)
    | (exact idx_inj _ _ _ _ _ (by first | assumption | apply_assumption) (by first | assumption | apply_assumption) ‹_ = _›)
    | (exact idx_inj_low _ _ _ _ _ (by assumption) (by assumption) ‹_ = _›))

macro "prange_slice" : tactic =>
  `(tactic| first
    | (exact slice_disjoint _ _ _ _ ‹_ ≠ _› ‹_ ∧ _›)
    | omega)

end SppModel.Parallel

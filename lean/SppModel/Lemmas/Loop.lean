import SppModel.Model.LoopPrims
import Mathlib.Tactic.Ring
import Mathlib.Tactic.Linarith
/-!
Helper lemmas about the loop primitives (`Model/LoopPrims.lean`).
-/
namespace SppModel.Loop

@[simp] theorem forRange_zero {σ : Type} (s : σ) (f : Nat → σ → σ) : forRange 0 s f = s := rfl

theorem forRange_succ {σ : Type} (n : Nat) (s : σ) (f : Nat → σ → σ) :
    forRange (n + 1) s f = f n (forRange n s f) := by
  simp [forRange, List.range_succ, List.foldl_append]

@[simp] theorem upd_same {α : Type} (f : Nat → α) (i : Nat) (v : α) : upd f i v i = v := by simp [upd]

theorem upd_other {α : Type} (f : Nat → α) (i j : Nat) (v : α) (h : j ≠ i) : upd f i v j = f j := by
  simp [upd, h]

theorem upd_apply {α : Type} (f : Nat → α) (i j : Nat) (v : α) : upd f i v j = if j = i then v else f j := rfl

/-- `Σ_{k<n} f k` as a list sum (the form used by the hand models) -/
def rsum (n : Nat) (f : Nat → Rat) : Rat := ((List.range n).map f).sum

@[simp] theorem rsum_zero (f : Nat → Rat) : rsum 0 f = 0 := rfl

theorem rsum_succ (n : Nat) (f : Nat → Rat) : rsum (n + 1) f = rsum n f + f n := by
  simp [rsum, List.range_succ, List.sum_append]

theorem rsum_congr (n : Nat) (f g : Nat → Rat) (h : ∀ k < n, f k = g k) : rsum n f = rsum n g := by
  induction n with
  | zero => rfl
  | succ n ih =>
    rw [rsum_succ, rsum_succ, ih (fun k hk => h k (Nat.lt_succ_of_lt hk)), h n (Nat.lt_succ_self n)]

theorem sumSlice_eq (f : Nat → Rat) (lo hi : Nat) : sumSlice f lo hi = rsum (hi - lo) (fun k => f (lo + k)) := rfl

/-- a scalar accumulator: `for i in range(n): t += g i` -/
theorem forRange_acc (n : Nat) (t : Rat) (g : Nat → Rat) :
    forRange n t (fun i t => t + g i) = t + rsum n g := by
  induction n with
  | zero => simp
  | succ n ih => rw [forRange_succ, ih, rsum_succ]; ring

/-- a loop that only ever touches cell `c`: `for i in range(n): a[c] += g i` -/
theorem forRange_acc_cell (n : Nat) (a : Nat → Rat) (c : Nat) (g : Nat → Rat) (j : Nat) :
    forRange n a (fun i a => upd a c (a c + g i)) j = if j = c then a c + rsum n g else a j := by
  induction n with
  | zero => by_cases h : j = c <;> simp [h]
  | succ n ih =>
    rw [forRange_succ, upd_apply]
    by_cases h : j = c
    · subst h; simp [ih, rsum_succ]; ring
    · simp [h, ih]

/-- a loop storing a state-independent value at `base + i`: `for i in range(n): a[base + i] = g i` -/
theorem forRange_upd_offset {α : Type} (n : Nat) (a : Nat → α) (base : Nat) (g : Nat → α) (j : Nat) :
    forRange n a (fun i a => upd a (base + i) (g i)) j
      = if base ≤ j ∧ j < base + n then g (j - base) else a j := by
  induction n with
  | zero =>
    have : ¬ (base ≤ j ∧ j < base + 0) := by omega
    rw [forRange_zero, if_neg this]
  | succ n ih =>
    rw [forRange_succ, upd_apply]
    by_cases h : j = base + n
    · subst h
      simp
    · rw [if_neg h, ih]
      by_cases h2 : base ≤ j ∧ j < base + n
      · have : base ≤ j ∧ j < base + (n + 1) := by omega
        simp [h2, this]
      · have : ¬ (base ≤ j ∧ j < base + (n + 1)) := by omega
        simp [h2, this]

/-- `for i in range(n): a[i] = g i` -/
theorem forRange_upd_self {α : Type} (n : Nat) (a : Nat → α) (g : Nat → α) (j : Nat) :
    forRange n a (fun i a => upd a i (g i)) j = if j < n then g j else a j := by
  have h := forRange_upd_offset n a 0 (fun i => g i) j
  simp only [Nat.zero_add, Nat.zero_le, true_and, Nat.sub_zero] at h
  exact h

/-- row-major double loop: `for i in range(M): for j in range(N): a[N*i + j] = g i j` -/
theorem forRange_upd_grid {α : Type} (M N : Nat) (a : Nat → α) (g : Nat → Nat → α) (k : Nat) :
    forRange M a (fun i a => forRange N a (fun j a => upd a (N * i + j) (g i j))) k
      = if 0 < N ∧ k / N < M then g (k / N) (k % N) else a k := by
  induction M with
  | zero => simp
  | succ M ih =>
    rw [forRange_succ, forRange_upd_offset, ih]
    by_cases h : N * M ≤ k ∧ k < N * M + N
    · obtain ⟨h1, h2⟩ := h
      have hN : 0 < N := by omega
      have hk : k = N * M + (k - N * M) := by omega
      have hlt : k - N * M < N := by omega
      have hq : k / N = M := by
        rw [hk, Nat.mul_add_div hN, Nat.div_eq_of_lt hlt]; rfl
      have hr : k % N = k - N * M := by
        rw [hk, Nat.mul_add_mod, Nat.mod_eq_of_lt hlt]; omega
      have c1 : N * M ≤ k ∧ k < N * M + N := ⟨h1, h2⟩
      have c2 : 0 < N ∧ k / N < M + 1 := ⟨hN, by omega⟩
      rw [if_pos c1, if_pos c2, hq, hr]
    · rw [if_neg h]
      by_cases hN : 0 < N
      · have e1 : k / N < M + 1 ↔ k < N * M + N := by
          rw [Nat.div_lt_iff_lt_mul hN, Nat.add_mul, Nat.one_mul, Nat.mul_comm]
        have e2 : k / N < M ↔ k < N * M := by
          rw [Nat.div_lt_iff_lt_mul hN, Nat.mul_comm]
        by_cases h3 : k / N < M
        · have : k / N < M + 1 := by omega
          simp [hN, h3, this]
        · have : ¬ k / N < M + 1 := by
            rw [e1]; rw [e2] at h3; omega
          simp [h3, this]
      · simp [hN]

/-- nested scalar accumulation: `for a in range(m): for b in range(n): t += h a b` -/
theorem forRange_acc2 (m n : Nat) (t : Rat) (h : Nat → Nat → Rat) :
    forRange m t (fun a t => forRange n t (fun b t => t + h a b))
      = t + rsum m (fun a => rsum n (fun b => h a b)) := by
  have e : (fun a t => forRange n t (fun b t => t + h a b))
      = (fun (a : Nat) (t : Rat) => t + rsum n (fun b => h a b)) := by
    funext a t
    exact forRange_acc n t (fun b => h a b)
  rw [e, forRange_acc]

theorem rsum_zero_fun (n : Nat) : rsum n (fun _ => 0) = 0 := by
  induction n with
  | zero => rfl
  | succ n ih => rw [rsum_succ, ih]; simp

/-- a loop storing into consecutive cells: `for i in range(n): a[base + i] = g i` -/
theorem forRange_store {α : Type} (n : Nat) (a : Nat → α) (base : Nat) (g : Nat → α) (j : Nat) :
    forRange n a (fun i a => upd a (base + i) (g i)) j
      = if base ≤ j ∧ j < base + n then g (j - base) else a j := by
  induction n with
  | zero =>
    have : ¬ (base ≤ j ∧ j < base + 0) := by omega
    rw [forRange_zero, if_neg this]
  | succ n ih =>
    rw [forRange_succ, upd_apply]
    by_cases h : j = base + n
    · subst h
      have e : base + n - base = n := by omega
      simp [e]
    · rw [if_neg h, ih]
      by_cases h2 : base ≤ j ∧ j < base + n
      · have : base ≤ j ∧ j < base + (n + 1) := by omega
        simp [h2, this]
      · have : ¬ (base ≤ j ∧ j < base + (n + 1)) := by omega
        simp [h2, this]

/-- a scatter-add loop: `for i in range(n): a[p i] += g i` -/
theorem forRange_scatter_add (n : Nat) (a : Nat → Rat) (p : Nat → Nat) (g : Nat → Rat) (j : Nat) :
    forRange n a (fun i a => upd a (p i) (a (p i) + g i)) j
      = a j + rsum n (fun i => if p i = j then g i else 0) := by
  induction n generalizing j with
  | zero => simp
  | succ n ih =>
    rw [forRange_succ, upd_apply, rsum_succ]
    by_cases h : j = p n
    · subst h
      rw [if_pos rfl, ih, if_pos rfl]; ring
    · rw [if_neg h, ih, if_neg (fun e => h e.symm)]; ring

/-- `k` lies in block `n` of width `C` iff `C > 0` and `k / C = n` -/
theorem block_iff (C n k : Nat) : (C * n ≤ k ∧ k < C * n + C) ↔ (0 < C ∧ k / C = n) := by
  constructor
  · rintro ⟨h1, h2⟩
    have hC : 0 < C := by omega
    refine ⟨hC, Nat.div_eq_of_lt_le ?_ ?_⟩
    · rw [Nat.mul_comm]; exact h1
    · rw [Nat.add_mul, Nat.one_mul, Nat.mul_comm]; exact h2
  · rintro ⟨hC, rfl⟩
    have := Nat.div_add_mod k C
    have := Nat.mod_lt k hC
    omega

end SppModel.Loop

import Mathlib.Tactic.Ring
import Mathlib.Tactic.Linarith
/-!
`bridge_close`: decide that two translations of the same source fragment are the same function.

Used by the generated `Bridge/*.lean` modules: the property theorems are stated about the frozen reference
translation (`Frozen/*.lean`, the text the proofs were written against); every run re-proves, by this fixed
tactic, that the translation of the CURRENT source equals it.  The tactic sees through `let` temporaries and
renamings (definitional unfolding), and re-associated / commuted integer and rational arithmetic (`omega`,
`ring` at the arithmetic leaves of a structural descent).  It does not search: anything else fails, and the
check then falls through to the failing-input search.
-/
namespace SppModel

open Lean Elab Tactic Meta in
/-- succeeds iff the goal is an equation between naturals, integers or rationals -/
elab "guard_arith_eq" : tactic => do
  let g ← getMainGoal
  let t ← instantiateMVars (← g.getType)
  match t.eq? with
  | some (ty, _, _) =>
    let ty ← whnfR ty
    unless ty.isConstOf ``Nat || ty.isConstOf ``Int || ty.isConstOf ``Rat do
      throwError "not an arithmetic equation"
  | none => throwError "not an equation"

/-- one step of the structural descent: arithmetic is only attempted at arithmetic leaves -/
macro "bridge_step" : tactic => `(tactic| first
  | (with_reducible rfl)
  | (guard_arith_eq; first | omega | ring1)
  | (fail_if_no_progress congr 1)
  | (funext _))

macro "bridge_close" : tactic => `(tactic| first
  | (with_reducible rfl)
  | ((try dsimp only); repeat' bridge_step))

end SppModel

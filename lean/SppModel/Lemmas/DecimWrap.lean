import SppModel.Generated.DecimWrap
import SppModel.Model.Filters
import Mathlib.Tactic.Ring
/-! Helper lemmas for the source tie of the decimation wrappers (`Props/Tie/DecimWrap.lean`):
what the NumPy primitives of `Model/DecimPrims.lean` compute when composed the way the wrappers compose them. -/
namespace SppModel.DecimLemmas
open SppModel SppModel.DecimPrims

/-! ### generic list facts -/

theorem getD_map_range {α : Type} (g : Nat → α) (n k : Nat) (d : α) (hk : k < n) :
    ((List.range n).map g).getD k d = g k := by
  simp [List.getD_eq_getElem?_getD, List.getElem?_map, List.getElem?_range hk]

theorem getD_take {α : Type} (x : List α) (n k : Nat) (d : α) (hk : k < n) :
    (x.take n).getD k d = x.getD k d := by
  simp [List.getD_eq_getElem?_getD, hk]

theorem idx_lt {i n a f : Nat} (hi : i < n) (ha : a < f) : i * f + a < n * f := by
  calc i * f + a < i * f + f := by omega
    _ = (i + 1) * f := by rw [Nat.add_mul, Nat.one_mul]
    _ ≤ n * f := Nat.mul_le_mul_right f hi

theorem flatMap_congr_left {α β : Type} (l : List α) (g h : α → List β) (H : ∀ a ∈ l, g a = h a) :
    l.flatMap g = l.flatMap h := by
  induction l with
  | nil => rfl
  | cons a t ih =>
    rw [List.flatMap_cons, List.flatMap_cons, H a (by simp), ih (fun b hb => H b (by simp [hb]))]

theorem sum_flatMap {α : Type} (l : List α) (g : α → List Rat) :
    (l.flatMap g).sum = (l.map (fun a => (g a).sum)).sum := by
  induction l with
  | nil => rfl
  | cons a t ih => rw [List.flatMap_cons, List.sum_append, ih, List.map_cons, List.sum_cons]

theorem sum_map_const_nat {α : Type} (l : List α) (c : Nat) : (l.map (fun _ => c)).sum = l.length * c := by
  induction l with
  | nil => simp
  | cons a t ih => rw [List.map_cons, List.sum_cons, ih, List.length_cons, Nat.add_mul, Nat.one_mul, Nat.add_comm]

theorem length_flatMap_range_map {β : Type} (f1 f2 : Nat) (h : Nat → Nat → β) :
    ((List.range f1).flatMap (fun a => (List.range f2).map (h a))).length = f1 * f2 := by
  rw [List.length_flatMap]
  simp only [List.length_map, List.length_range]
  rw [sum_map_const_nat, List.length_range]

theorem headD_map_range_length {β : Type} (g : Nat → List β) (f1 n2 : Nat) (hf1 : 0 < f1)
    (hg : ∀ a, (g a).length = n2) : (((List.range f1).map g).headD []).length = n2 := by
  cases f1 with
  | zero => omega
  | succ k => simp [List.range_succ_eq_map, hg]

/-! ### 1-D -/

theorem reduceAxis1_reshapeRows_sliceTo (red : Vec → Rat) (x : Vec) (f : Nat) (hf : 0 < f) :
    reduceAxis1 red (reshapeRows (sliceTo x (x.length / f * f)) f) =
      (List.range (x.length / f)).map (fun i => red ((List.range f).map (fun a => x.getD (i * f + a) 0))) := by
  unfold reduceAxis1 reshapeRows sliceTo
  have hlen : (x.take (x.length / f * f)).length = x.length / f * f := by
    rw [List.length_take]; exact Nat.min_eq_left (Nat.div_mul_le_self _ _)
  rw [hlen, Nat.mul_div_cancel _ hf, List.map_map]
  apply List.map_congr_left
  intro i hi
  rw [List.mem_range] at hi
  simp only [Function.comp]
  congr 1
  apply List.map_congr_left
  intro a ha
  rw [List.mem_range] at ha
  exact getD_take x _ _ 0 (idx_lt hi ha)

theorem mean_group (l : Vec) (f : Nat) (hl : l.length = f) : DecimPrims.mean l = l.sum / (f : Rat) := by
  unfold DecimPrims.mean; rw [hl]

/-! ### 2-D -/

theorem getD_slice2_reshape2 (x : Vec) (d1 d2 r c p q : Nat) (hr : r ≤ d1) (hc : c ≤ d2) (hp : p < r)
    (hq : q < c) : ((slice2 (reshape2 x d1 d2) r c).getD p []).getD q 0 = x.getD (p * d2 + q) 0 := by
  unfold slice2 reshape2
  have h1 : p < d1 := by omega
  have h2 : q < d2 := by omega
  simp [List.getD_eq_getElem?_getD, List.getElem?_map, List.getElem?_range h1, List.getElem?_range h2, hp, hq]

theorem reduceAxes13_reshape4 (red : Vec → Rat) (m : Mat) (n1 f1 n2 f2 : Nat) (hf1 : 0 < f1) :
    reduceAxes13 red (reshape4 m (n1, f1, n2, f2)) =
      (List.range n1).map (fun i => (List.range n2).map (fun j =>
        red ((List.range f1).flatMap (fun a => (List.range f2).map (fun b =>
          (m.getD (i * f1 + a) []).getD (j * f2 + b) 0))))) := by
  unfold reduceAxes13 reshape4
  simp only [List.map_map]
  apply List.map_congr_left
  intro i _
  simp only [Function.comp]
  rw [headD_map_range_length _ f1 n2 hf1 (fun a => by simp)]
  apply List.map_congr_left
  intro j hj
  rw [List.mem_range] at hj
  congr 1
  rw [List.flatMap_map]
  apply flatMap_congr_left
  intro a _
  exact getD_map_range _ n2 j [] hj

theorem reduce_wrapped (red : Vec → Rat) (x : Vec) (d1 d2 f1 f2 : Nat) (hf1 : 0 < f1) :
    reduceAxes13 red (reshape4 (slice2 (reshape2 x d1 d2) (d1 / f1 * f1) (d2 / f2 * f2))
        (d1 / f1, f1, d2 / f2, f2)) =
      (List.range (d1 / f1)).map (fun i => (List.range (d2 / f2)).map (fun j =>
        red ((List.range f1).flatMap (fun a => (List.range f2).map (fun b =>
          x.getD ((i * f1 + a) * d2 + (j * f2 + b)) 0))))) := by
  rw [reduceAxes13_reshape4 _ _ _ _ _ _ hf1]
  apply List.map_congr_left
  intro i hi
  rw [List.mem_range] at hi
  apply List.map_congr_left
  intro j hj
  rw [List.mem_range] at hj
  congr 1
  apply flatMap_congr_left
  intro a ha
  rw [List.mem_range] at ha
  apply List.map_congr_left
  intro b hb
  rw [List.mem_range] at hb
  exact getD_slice2_reshape2 x d1 d2 _ _ _ _ (Nat.div_mul_le_self _ _) (Nat.div_mul_le_self _ _)
    (idx_lt hi ha) (idx_lt hj hb)

theorem ravel_map_map {α : Type} (l : List α) (g : α → Vec) : ravel (l.map g) = l.flatMap g := by
  unfold ravel; rw [List.flatMap_map]; rfl

/-- mean of one 2-D group = double sum over `f1 · f2` -/
theorem mean_flatMap_range (f1 f2 : Nat) (h : Nat → Nat → Rat) :
    DecimPrims.mean ((List.range f1).flatMap (fun a => (List.range f2).map (h a))) =
      ((List.range f1).map (fun a => ((List.range f2).map (h a)).sum)).sum / ((f1 * f2 : Nat) : Rat) := by
  unfold DecimPrims.mean
  rw [length_flatMap_range_map, sum_flatMap]

theorem flat_index (d2 i f1 j f2 a b : Nat) :
    d2 * i * f1 + j * f2 + a * d2 + b = (i * f1 + a) * d2 + (j * f2 + b) := by ring

end SppModel.DecimLemmas

import SppModel.Lemmas.Loop
import SppModel.Model.Dedisp
/-!
Helper lemmas for the block-kernel specifications (`Props/Kernels/RollBlock.lean`):
row-local loops over 2-D functional arrays, bounds of `maxArr`/`minArr` (1-D and 2-D),
their list forms (`Dedisp.maxI`/`minI`), and the cell form of `Dedisp.rollRow`.
-/
namespace SppModel.Loop

/-! ## row-local loops -/

theorem setRow_apply {α : Type} (a : Nat → Nat → α) (r : Nat) (row : Nat → α) (i : Nat) :
    setRow a r row i = if i = r then row else a i := rfl

@[simp] theorem setRow_same {α : Type} (a : Nat → Nat → α) (r : Nat) (row : Nat → α) :
    setRow a r row r = row := by simp [setRow]

theorem setRow_setRow {α : Type} (a : Nat → Nat → α) (r : Nat) (row row' : Nat → α) :
    setRow (setRow a r row) r row' = setRow a r row' := by
  funext i
  by_cases h : i = r <;> simp [setRow, h]

/-- a loop whose iteration `i` rewrites row `i` from its own previous contents only -/
theorem forRange_rows {α : Type} (n : Nat) (init : Nat → Nat → α) (body : Nat → (Nat → Nat → α) → Nat → Nat → α)
    (G : Nat → (Nat → α) → Nat → α) (hb : ∀ i res, body i res = setRow res i (G i (res i))) (r : Nat) :
    forRange n init body r = if r < n then G r (init r) else init r := by
  induction n generalizing r with
  | zero => simp
  | succ n ih =>
    rw [forRange_succ, hb, setRow_apply]
    by_cases h : r = n
    · subst h
      rw [if_pos rfl, if_pos (Nat.lt_succ_self _), ih, if_neg (Nat.lt_irrefl _)]
    · rw [if_neg h, ih]
      by_cases h2 : r < n
      · rw [if_pos h2, if_pos (Nat.lt_succ_of_lt h2)]
      · rw [if_neg h2, if_neg (by omega)]

/-- a loop that only ever rewrites row `c` from its own previous contents -/
theorem forRange_one_row {α : Type} (m : Nat) (res : Nat → Nat → α) (c : Nat) (H : Nat → (Nat → α) → Nat → α) :
    forRange m res (fun j res => setRow res c (H j (res c)))
      = setRow res c (forRange m (res c) (fun j row => H j row)) := by
  induction m with
  | zero =>
    funext i
    by_cases h : i = c <;> simp [setRow, h]
  | succ m ih =>
    rw [forRange_succ, forRange_succ, ih, setRow_same, setRow_setRow]

/-- `for j in range(m): row[0:V] += src_j[o_j : o_j + V]` -/
theorem forRange_addSlice (m : Nat) (row : Nat → Rat) (V : Nat) (src : Nat → Nat → Rat) (o : Nat → Nat) (k : Nat) :
    forRange m row (fun j row => addSliceInto row 0 V (src j) (o j)) k
      = if k < V then row k + rsum m (fun j => src j (o j + k)) else row k := by
  induction m with
  | zero => simp
  | succ m ih =>
    rw [forRange_succ]
    show (if 0 ≤ k ∧ k < V then _ + src m (o m + (k - 0)) else _) = _
    rw [ih, Nat.sub_zero]
    by_cases h : k < V
    · rw [if_pos ⟨Nat.zero_le _, h⟩, if_pos h, if_pos h, rsum_succ]; ring
    · rw [if_neg (fun hh => h hh.2), if_neg h, if_neg h]

theorem colSum_eq (a : Nat → Nat → Rat) (rows k : Nat) : colSum a rows k = rsum rows (fun r => a r k) := rfl

/-! ## `maxArr` / `minArr` -/

theorem foldmax_succ (a : Nat → Int) (n : Nat) (m0 : Int) :
    (List.range (n + 1)).foldl (fun m i => max m (a i)) m0
      = max ((List.range n).foldl (fun m i => max m (a i)) m0) (a n) := by
  simp [List.range_succ, List.foldl_append]

theorem foldmin_succ (a : Nat → Int) (n : Nat) (m0 : Int) :
    (List.range (n + 1)).foldl (fun m i => min m (a i)) m0
      = min ((List.range n).foldl (fun m i => min m (a i)) m0) (a n) := by
  simp [List.range_succ, List.foldl_append]

theorem foldmax_ge_init (a : Nat → Int) (n : Nat) (m0 : Int) :
    m0 ≤ (List.range n).foldl (fun m i => max m (a i)) m0 := by
  induction n with
  | zero => simp
  | succ n ih => rw [foldmax_succ]; omega

theorem foldmin_le_init (a : Nat → Int) (n : Nat) (m0 : Int) :
    (List.range n).foldl (fun m i => min m (a i)) m0 ≤ m0 := by
  induction n with
  | zero => simp
  | succ n ih => rw [foldmin_succ]; omega

theorem foldmax_ge (a : Nat → Int) (n : Nat) (m0 : Int) (r : Nat) (hr : r < n) :
    a r ≤ (List.range n).foldl (fun m i => max m (a i)) m0 := by
  induction n with
  | zero => omega
  | succ n ih =>
    rw [foldmax_succ]
    by_cases h : r = n
    · subst h; omega
    · have := ih (by omega); omega

theorem foldmin_le (a : Nat → Int) (n : Nat) (m0 : Int) (r : Nat) (hr : r < n) :
    (List.range n).foldl (fun m i => min m (a i)) m0 ≤ a r := by
  induction n with
  | zero => omega
  | succ n ih =>
    rw [foldmin_succ]
    by_cases h : r = n
    · subst h; omega
    · have := ih (by omega); omega

theorem le_maxArr (a : Nat → Int) (n r : Nat) (hr : r < n) : a r ≤ maxArr a n := foldmax_ge a n _ r hr

theorem minArr_le (a : Nat → Int) (n r : Nat) (hr : r < n) : minArr a n ≤ a r := foldmin_le a n _ r hr

theorem maxArr2_succ (a : Nat → Nat → Int) (r c : Nat) :
    maxArr2 a (r + 1) c = (List.range c).foldl (fun m j => max m (a r j)) (maxArr2 a r c) := by
  simp [maxArr2, List.range_succ, List.foldl_append]

theorem minArr2_succ (a : Nat → Nat → Int) (r c : Nat) :
    minArr2 a (r + 1) c = (List.range c).foldl (fun m j => min m (a r j)) (minArr2 a r c) := by
  simp [minArr2, List.range_succ, List.foldl_append]

theorem le_maxArr2 (a : Nat → Nat → Int) (r c i j : Nat) (hi : i < r) (hj : j < c) : a i j ≤ maxArr2 a r c := by
  induction r with
  | zero => omega
  | succ r ih =>
    rw [maxArr2_succ]
    by_cases h : i = r
    · subst h
      exact foldmax_ge (a i) c _ j hj
    · have h1 := ih (by omega)
      have h2 := foldmax_ge_init (a r) c (maxArr2 a r c)
      omega

theorem minArr2_le (a : Nat → Nat → Int) (r c i j : Nat) (hi : i < r) (hj : j < c) : minArr2 a r c ≤ a i j := by
  induction r with
  | zero => omega
  | succ r ih =>
    rw [minArr2_succ]
    by_cases h : i = r
    · subst h
      exact foldmin_le (a i) c _ j hj
    · have h1 := ih (by omega)
      have h2 := foldmin_le_init (a r) c (minArr2 a r c)
      omega

/-! ## list forms -/

theorem foldmax_range_getD (xs : List Int) (m0 : Int) :
    (List.range xs.length).foldl (fun m i => max m (xs.getD i 0)) m0 = xs.foldl max m0 := by
  induction xs generalizing m0 with
  | nil => rfl
  | cons x xs ih =>
    rw [List.length_cons, List.range_succ_eq_map, List.foldl_cons, List.foldl_map, List.foldl_cons]
    simpa using ih (max m0 x)

theorem foldmin_range_getD (xs : List Int) (m0 : Int) :
    (List.range xs.length).foldl (fun m i => min m (xs.getD i 0)) m0 = xs.foldl min m0 := by
  induction xs generalizing m0 with
  | nil => rfl
  | cons x xs ih =>
    rw [List.length_cons, List.range_succ_eq_map, List.foldl_cons, List.foldl_map, List.foldl_cons]
    simpa using ih (min m0 x)

theorem max_foldl_max (xs : List Int) (c a : Int) : max c (xs.foldl max a) = xs.foldl max (max c a) := by
  induction xs generalizing a with
  | nil => rfl
  | cons x xs ih =>
    rw [List.foldl_cons, List.foldl_cons, ih, show max (max c a) x = max c (max a x) by omega]

theorem min_foldl_min (xs : List Int) (c a : Int) : min c (xs.foldl min a) = xs.foldl min (min c a) := by
  induction xs generalizing a with
  | nil => rfl
  | cons x xs ih =>
    rw [List.foldl_cons, List.foldl_cons, ih, show min (min c a) x = min c (min a x) by omega]

/-- `max(0, np.max(shifts))` on a list is `Dedisp.maxI` -/
theorem max_zero_maxArr_getD (xs : List Int) :
    max 0 (maxArr (fun i => xs.getD i 0) xs.length) = Dedisp.maxI xs := by
  unfold maxArr Dedisp.maxI
  rw [foldmax_range_getD, max_foldl_max]
  cases xs with
  | nil => rfl
  | cons x t =>
    rw [List.foldl_cons, List.foldl_cons]
    congr 1
    simp only [List.getD_cons_zero]
    omega

theorem min_zero_minArr_getD (xs : List Int) :
    min 0 (minArr (fun i => xs.getD i 0) xs.length) = Dedisp.minI xs := by
  unfold minArr Dedisp.minI
  rw [foldmin_range_getD, min_foldl_min]
  cases xs with
  | nil => rfl
  | cons x t =>
    rw [List.foldl_cons, List.foldl_cons]
    congr 1
    simp only [List.getD_cons_zero]
    omega

end SppModel.Loop

namespace SppModel.Dedisp

/-- index of the source cell of a right rotation by `s < n` -/
theorem rot_index (k n s : Nat) (hk : k < n) (hs : s < n) :
    (k + n - s) % n = if k < s then n - s + k else k - s := by
  by_cases h : k < s
  · rw [if_pos h, Nat.mod_eq_of_lt (by omega)]; omega
  · rw [if_neg h, show k + n - s = (k - s) + n by omega, Nat.add_mod_right, Nat.mod_eq_of_lt (by omega)]

theorem getD_mem_of_lt' {α} (l : List α) (c : Nat) (a : α) (hc : c < l.length) : l.getD c a ∈ l := by
  simp [List.getD_eq_getElem?_getD, hc]

theorem getD_map_range' {α} (f : Nat → α) (m c : Nat) (a : α) (hc : c < m) :
    ((List.range m).map f).getD c a = f c := by
  simp [List.getD_eq_getElem?_getD, hc]

/-- `rollRow`, every cell: `out[k] = row[(k - shift) mod n]` -/
theorem rollRow_getD (row : List Int) (s : Int) (k : Nat) (hk : k < row.length) :
    (rollRow row s).getD k 0
      = row.getD ((k + row.length - (s % (row.length : Int)).toNat) % row.length) 0 := by
  have hn : (0 : Int) < (row.length : Int) := by omega
  have h0 := Int.emod_nonneg s hn.ne'
  have h1 := Int.emod_lt_of_pos s hn
  have hs : (s % (row.length : Int)).toNat < row.length := by omega
  rw [rot_index k row.length _ hk hs]
  unfold rollRow
  simp only []
  generalize (s % (row.length : Int)).toNat = sh at hs ⊢
  by_cases hz : sh = 0
  · subst hz
    simp
  · rw [if_neg hz]
    simp only [List.getD_eq_getElem?_getD]
    by_cases hlt : k < sh
    · rw [if_pos hlt, List.getElem?_append_left (by rw [List.length_drop]; omega), List.getElem?_drop]
    · rw [if_neg hlt, List.getElem?_append_right (by rw [List.length_drop]; omega), List.length_drop,
        List.getElem?_take, if_pos (by omega)]
      congr 2
      omega

/-- a cell of a window `row[a : a + V]` -/
theorem getD_take_drop (row : List Int) (a V k : Nat) (hk : k < V) :
    ((row.drop a).take V).getD k 0 = row.getD (a + k) 0 := by
  simp only [List.getD_eq_getElem?_getD]
  rw [List.getElem?_take, if_pos hk, List.getElem?_drop]

end SppModel.Dedisp

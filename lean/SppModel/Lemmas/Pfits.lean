import SppModel.Model.Pfits
import SppModel.Lemmas.Plan
/-! Helper lemmas for C18 (core Lean only). -/
namespace SppModel.Pfits
open SppModel SppModel.Plan

variable {α : Type}

/-- a well-formed SUBINT table: every sub-integration has nsblk rows -/
def Shaped (subs : List (List α)) (nsblk : Nat) : Prop := ∀ sub ∈ subs, sub.length = nsblk

theorem Shaped.tail {x : List α} {xs : List (List α)} {nsblk : Nat} (h : Shaped (x :: xs) nsblk) :
    Shaped xs nsblk := fun sub hs => h sub (List.mem_cons_of_mem _ hs)

theorem Shaped.head {x : List α} {xs : List (List α)} {nsblk : Nat} (h : Shaped (x :: xs) nsblk) :
    x.length = nsblk := h x List.mem_cons_self

theorem Shaped.drop {subs : List (List α)} {nsblk : Nat} (h : Shaped subs nsblk) (a : Nat) :
    Shaped (subs.drop a) nsblk := fun sub hs => h sub (List.mem_of_mem_drop hs)

theorem flatten_length (subs : List (List α)) (nsblk : Nat) (h : Shaped subs nsblk) :
    subs.flatten.length = subs.length * nsblk := by
  induction subs with
  | nil => simp
  | cons x xs ih =>
    rw [List.flatten_cons, List.length_append, ih h.tail, h.head, List.length_cons, Nat.succ_mul]
    omega

/-- taking `m` equal-length parts = taking `m * nsblk` rows -/
theorem take_flatten (subs : List (List α)) (nsblk : Nat) (h : Shaped subs nsblk) (m : Nat) :
    (subs.take m).flatten = subs.flatten.take (m * nsblk) := by
  induction subs generalizing m with
  | nil => simp
  | cons x xs ih =>
    cases m with
    | zero => simp
    | succ m =>
      rw [List.take_succ_cons, List.flatten_cons, List.flatten_cons, ih h.tail, List.take_append, h.head]
      have e1 : (m + 1) * nsblk - nsblk = m * nsblk := by rw [Nat.succ_mul]; omega
      have e2 : x.length ≤ (m + 1) * nsblk := by rw [h.head, Nat.succ_mul]; omega
      rw [e1, List.take_of_length_le e2]

/-- dropping `a` equal-length parts = dropping `a * nsblk` rows -/
theorem drop_flatten (subs : List (List α)) (nsblk : Nat) (h : Shaped subs nsblk) (a : Nat) :
    (subs.drop a).flatten = subs.flatten.drop (a * nsblk) := by
  induction subs generalizing a with
  | nil => simp
  | cons x xs ih =>
    cases a with
    | zero => simp
    | succ a =>
      rw [List.drop_succ_cons, List.flatten_cons, ih h.tail, List.drop_append, h.head]
      have e1 : (a + 1) * nsblk - nsblk = a * nsblk := by rw [Nat.succ_mul]; omega
      have e2 : x.length ≤ (a + 1) * nsblk := by rw [h.head, Nat.succ_mul]; omega
      rw [e1, List.drop_of_length_le e2, List.nil_append]

/-- the slice arithmetic of one request: `divmod`, round the row count up, cut -/
theorem slice_arith (W : List α) (nsblk start block : Nat) (hn : 0 < nsblk) :
    (((W.drop (start / nsblk * nsblk)).take ((start % nsblk + block + nsblk - 1) / nsblk * nsblk)).drop
        (start % nsblk)).take block = (W.drop start).take block := by
  have hdm := Nat.div_add_mod start nsblk
  have hdm2 := Nat.div_add_mod (start % nsblk + block + nsblk - 1) nsblk
  have hml := Nat.mod_lt (start % nsblk + block + nsblk - 1) hn
  have c1 := Nat.mul_comm nsblk (start / nsblk)
  have c2 := Nat.mul_comm nsblk ((start % nsblk + block + nsblk - 1) / nsblk)
  rw [List.drop_take, List.take_take, List.drop_drop]
  have e1 : start / nsblk * nsblk + start % nsblk = start := by omega
  have e2 : min block ((start % nsblk + block + nsblk - 1) / nsblk * nsblk - start % nsblk) = block := by omega
  rw [e1, e2]

theorem readSubints_map {β : Type} (f : α → β) (subs : List (List α)) (a m : Nat) :
    readSubints (subs.map (List.map f)) a m = (readSubints subs a m).map f := by
  simp [readSubints, List.map_flatten, List.map_take, List.map_drop]

/-- running `m` full blocks of the row plan -/
theorem runPlanRows_full (subs : List (List α)) (nsblk s st k g' : Nat) (hk : k + st = g')
    (tail : List Entry) (m j : Nat) :
    runPlanRows subs nsblk (s + j * st) ((List.range' j m).map (fun i => ((i, g', k) : Entry)) ++ tail)
      = (List.range' j m).map (fun i => (g', i, readRows subs nsblk (s + i * st) g'))
          ++ runPlanRows subs nsblk (s + (j + m) * st) tail := by
  induction m generalizing j with
  | zero => simp
  | succ m ih =>
    rw [List.range'_succ, List.map_cons, List.cons_append, runPlanRows]
    have e : s + j * st + g' - k = s + (j + 1) * st := by rw [Nat.add_mul]; omega
    rw [e, ih (j + 1)]
    have e2 : j + 1 + m = j + (m + 1) := by omega
    rw [e2, List.map_cons, List.cons_append]

/-- the blocks of an accepted row plan, before the slices are identified -/
theorem readPlan_expected (subs : List (List α)) (nsblk g s n k : Nat)
    (hk : k < geff g n) (hl : ¬ lastread g n k < k) :
    readPlan subs nsblk g s n k
      = .ok ((expected g s n k).map (fun b => (b.len, b.ii, readRows subs nsblk b.off b.len))) := by
  have h1 : ¬ k ≥ geff g n := by omega
  have hkst : k + (geff g n - k) = geff g n := by omega
  unfold readPlan
  simp only [h1, ↓reduceIte, planBlocks, hl]
  rw [List.range_eq_range']
  by_cases hz : lastread g n k = 0
  · simp only [hz, ne_eq, not_true_eq_false, ↓reduceIte]
    have := runPlanRows_full subs nsblk s (geff g n - k) k (geff g n) hkst [] (nreads g n k) 0
    simp only [Nat.zero_mul, Nat.add_zero, List.append_nil] at this
    rw [this]
    simp [runPlanRows, expected, hz, Function.comp_def]
  · simp only [hz, ne_eq, not_false_eq_true, ↓reduceIte]
    have := runPlanRows_full subs nsblk s (geff g n - k) k (geff g n) hkst
      [(nreads g n k, lastread g n k, 0)] (nreads g n k) 0
    simp only [Nat.zero_mul, Nat.add_zero] at this
    rw [this]
    simp [runPlanRows, expected, hz, Function.comp_def]

/-- a slice of `W` is `W` read at a range of indices (no bound needed: indices past the end read nothing) -/
theorem slice_eq_range (W : List α) (a m : Nat) :
    (W.drop a).take m = (List.range' a m).filterMap (fun i => W[i]?) := by
  induction m generalizing a with
  | zero => simp
  | succ m ih =>
    rw [List.range'_succ, List.filterMap_cons]
    by_cases h : a < W.length
    · rw [List.getElem?_eq_getElem h, List.drop_eq_getElem_cons h, List.take_succ_cons, ← ih (a + 1)]
    · have h' : W.length ≤ a := by omega
      rw [List.getElem?_eq_none h', List.drop_of_length_le h', ← ih (a + 1),
        List.drop_of_length_le (by omega)]
      simp

theorem slice_drop (W : List α) (off len k : Nat) :
    ((W.drop off).take len).drop k = (W.drop (off + k)).take (len - k) := by
  rw [List.drop_take, List.drop_drop]

/-- blocks of slices laid end to end = `W` read at the delivered indices -/
theorem laid_eq_delivered (W : List α) (k : Nat) (bl : List Blk) :
    (match bl.map (fun b => (b.len, b.ii, (W.drop b.off).take b.len)) with
     | [] => []
     | b :: rest => b.2.2 ++ (rest.map (fun c => c.2.2.drop k)).flatten)
      = (delivered k bl).filterMap (fun i => W[i]?) := by
  cases bl with
  | nil => simp [delivered]
  | cons b bs =>
    simp only [List.map_cons, delivered, List.filterMap_append, List.filterMap_flatten, List.map_map]
    rw [slice_eq_range]
    congr 2
    apply List.map_congr_left
    intro c _
    simp only [Function.comp_apply]
    rw [slice_drop, slice_eq_range]

end SppModel.Pfits

import SppModel.Model.Bits
/-! Helper lemmas for C03: lifting per-byte facts to arrays of any length. -/
namespace SppModel.Bits
open SppModel

/-- What the per-byte tables (checked by `decide +kernel`) establish. -/
structure Codec.Good (c : Codec) : Prop where
  hk : 0 < c.k
  len : ∀ b, b < 256 → (c.unp b).length = c.k
  rng : ∀ b, b < 256 → ∀ x ∈ c.unp b, x < c.bound
  pu : ∀ b, b < 256 → c.pk (c.unp b) = b
  up : ∀ v : List Nat, v.length = c.k → (∀ x ∈ v, x < c.bound) → c.unp (c.pk v) = v ∧ c.pk v < 256

theorem chunks_nil (k : Nat) : chunks k ([] : List α) = [] := by
  unfold chunks; split <;> simp_all <;> omega

theorem chunks_append_first (k : Nat) (hk : 0 < k) (xs ys : List α) (h : xs.length = k) :
    chunks k (xs ++ ys) = xs :: chunks k ys := by
  rw [chunks]
  have : ¬ k = 0 := by omega
  simp only [this, ↓reduceDIte, List.length_append]
  have h2 : ¬ (xs.length + ys.length < k) := by omega
  simp only [h2, ↓reduceDIte]
  rw [← h]; simp

theorem chunks_short (k : Nat) (xs : List α) (h : xs.length < k) : chunks k xs = [] := by
  rw [chunks]; split <;> simp_all

variable {c : Codec}

theorem unpackArr_nil : unpackArr c [] = [] := rfl
theorem unpackArr_cons (b : Nat) (bs : List Nat) : unpackArr c (b :: bs) = c.unp b ++ unpackArr c bs := by
  simp [unpackArr]
theorem unpackArr_append (xs ys : List Nat) : unpackArr c (xs ++ ys) = unpackArr c xs ++ unpackArr c ys := by
  simp [unpackArr]

theorem unpackArr_length (g : c.Good) (bytes : List Nat) (hb : ∀ b ∈ bytes, b < 256) :
    (unpackArr c bytes).length = bytes.length * c.k := by
  induction bytes with
  | nil => simp [unpackArr]
  | cons b bs ih =>
    rw [unpackArr_cons, List.length_append, g.len b (hb b (by simp)), ih (fun x hx => hb x (by simp [hx]))]
    simp [Nat.add_mul]; omega

theorem unpackArr_range (g : c.Good) (bytes : List Nat) (hb : ∀ b ∈ bytes, b < 256) :
    ∀ x ∈ unpackArr c bytes, x < c.bound := by
  intro x hx
  simp only [unpackArr, List.mem_flatMap] at hx
  obtain ⟨b, hbm, hxb⟩ := hx
  exact g.rng b (hb b hbm) x hxb

theorem packArr_unpackArr (g : c.Good) (bytes : List Nat) (hb : ∀ b ∈ bytes, b < 256) :
    packArr c (unpackArr c bytes) = bytes := by
  induction bytes with
  | nil => simp [packArr, unpackArr, chunks_nil]
  | cons b bs ih =>
    rw [unpackArr_cons, packArr, chunks_append_first c.k g.hk _ _ (g.len b (hb b (by simp)))]
    simp only [List.map_cons]
    rw [g.pu b (hb b (by simp))]
    have := ih (fun x hx => hb x (by simp [hx]))
    rw [packArr] at this; rw [this]

theorem packArr_append (g : c.Good) (xs ys : List Nat) (h : xs.length % c.k = 0) :
    packArr c (xs ++ ys) = packArr c xs ++ packArr c ys := by
  have hk := g.hk
  induction hn : xs.length / c.k generalizing xs with
  | zero =>
    have : xs.length = 0 := by
      have := Nat.div_add_mod xs.length c.k
      rw [hn, h] at this; simp at this; omega
    have : xs = [] := List.eq_nil_of_length_eq_zero this
    subst this; simp [packArr, chunks_nil]
  | succ n ih =>
    have hlen : c.k ≤ xs.length := by
      have := Nat.div_add_mod xs.length c.k
      rw [hn, h] at this
      have : c.k * (n + 1) = xs.length := by omega
      rw [← this]; exact Nat.le_mul_of_pos_right _ (by omega)
    have hsplit : xs = xs.take c.k ++ xs.drop c.k := (List.take_append_drop _ _).symm
    have htl : (xs.take c.k).length = c.k := by simp; omega
    have hdl : (xs.drop c.k).length % c.k = 0 := by
      simp only [List.length_drop]
      have := Nat.div_add_mod xs.length c.k
      rw [h] at this
      have e : xs.length = c.k * (xs.length / c.k) := by omega
      rw [e, hn]
      have : c.k * (n + 1) - c.k = c.k * n := by rw [Nat.mul_succ]; omega
      rw [this]; exact Nat.mul_mod_right _ _
    have hdn : (xs.drop c.k).length / c.k = n := by
      simp only [List.length_drop]
      have := Nat.div_add_mod xs.length c.k
      rw [h] at this
      have e : xs.length = c.k * (xs.length / c.k) := by omega
      rw [e, hn]
      have : c.k * (n + 1) - c.k = c.k * n := by rw [Nat.mul_succ]; omega
      rw [this]; exact Nat.mul_div_cancel_left _ hk
    have ih' := ih (xs.drop c.k) hdl hdn
    rw [hsplit, List.append_assoc]
    simp only [packArr] at ih' ⊢
    rw [chunks_append_first c.k hk _ _ htl, chunks_append_first c.k hk _ _ htl]
    simp only [List.map_cons, List.cons_append]
    rw [ih']

theorem unpackArr_packArr (g : c.Good) (vals : List Nat) (h : vals.length % c.k = 0)
    (hr : ∀ x ∈ vals, x < c.bound) : unpackArr c (packArr c vals) = vals := by
  have hk := g.hk
  induction hn : vals.length / c.k generalizing vals with
  | zero =>
    have : vals.length = 0 := by
      have := Nat.div_add_mod vals.length c.k
      rw [hn, h] at this; simp at this; omega
    have : vals = [] := List.eq_nil_of_length_eq_zero this
    subst this; simp [packArr, chunks_nil, unpackArr]
  | succ n ih =>
    have hlen : c.k ≤ vals.length := by
      have := Nat.div_add_mod vals.length c.k
      rw [hn, h] at this
      have : c.k * (n + 1) = vals.length := by omega
      rw [← this]; exact Nat.le_mul_of_pos_right _ (by omega)
    have hsplit : vals = vals.take c.k ++ vals.drop c.k := (List.take_append_drop _ _).symm
    have htl : (vals.take c.k).length = c.k := by simp; omega
    have e : vals.length = c.k * (n + 1) := by
      have := Nat.div_add_mod vals.length c.k
      rw [h, hn] at this; omega
    have e2 : c.k * (n + 1) - c.k = c.k * n := by rw [Nat.mul_succ]; omega
    have hdl : (vals.drop c.k).length % c.k = 0 := by
      simp only [List.length_drop]; rw [e, e2]; exact Nat.mul_mod_right _ _
    have hdn : (vals.drop c.k).length / c.k = n := by
      simp only [List.length_drop]; rw [e, e2]; exact Nat.mul_div_cancel_left _ hk
    have hrd : ∀ x ∈ vals.drop c.k, x < c.bound := fun x hx => hr x (List.mem_of_mem_drop hx)
    have hrt : ∀ x ∈ vals.take c.k, x < c.bound := fun x hx => hr x (List.mem_of_mem_take hx)
    have ih' := ih (vals.drop c.k) hdl hrd hdn
    have key : packArr c vals = c.pk (vals.take c.k) :: packArr c (vals.drop c.k) := by
      conv => lhs; rw [hsplit]
      simp only [packArr]
      rw [chunks_append_first c.k hk _ _ htl]; simp
    rw [key, unpackArr_cons, ih', (g.up _ htl hrt).1]
    exact List.take_append_drop _ _

/-- element `i*k + j` of the unpacked array is field `j` of byte `i` -/
theorem unpackArr_get (g : c.Good) (bytes : List Nat) (hb : ∀ b ∈ bytes, b < 256)
    (i j : Nat) (hi : i < bytes.length) (hj : j < c.k) :
    (unpackArr c bytes)[i * c.k + j]? = (c.unp bytes[i])[j]? := by
  induction bytes generalizing i with
  | nil => simp at hi
  | cons b bs ih =>
    rw [unpackArr_cons]
    have hl := g.len b (hb b (by simp))
    cases i with
    | zero =>
      simp only [Nat.zero_mul, Nat.zero_add, List.getElem_cons_zero]
      rw [List.getElem?_append_left (by omega)]
    | succ i =>
      have : (i + 1) * c.k + j = c.k + (i * c.k + j) := by rw [Nat.add_mul]; omega
      rw [this, List.getElem?_append_right (by omega)]
      have : c.k + (i * c.k + j) - (c.unp b).length = i * c.k + j := by omega
      rw [this]
      simp only [List.getElem_cons_succ]
      exact ih (fun x hx => hb x (by simp [hx])) i (by simpa using hi)

end SppModel.Bits

import SppModel.Model.Conv
/-! Helper lemmas for C12 (core Lean only): finite sums over `List.range`,
    zero padding, and the circular-vs-linear convolution index calculation. -/
namespace SppModel.Conv
open SppModel

/-! ## Sums over lists of indices -/

theorem sum_map_congr {l : List Nat} {f g : Nat → Int} (h : ∀ j ∈ l, f j = g j) :
    (l.map f).sum = (l.map g).sum := by
  rw [List.map_congr_left h]

theorem sum_map_zero {l : List Nat} {f : Nat → Int} (h : ∀ j ∈ l, f j = 0) :
    (l.map f).sum = 0 := by
  induction l with
  | nil => rfl
  | cons x xs ih =>
    simp only [List.map_cons, List.sum_cons]
    rw [h x (by simp), ih (fun j hj => h j (by simp [hj]))]
    rfl

theorem range_split {n N : Nat} (h : n ≤ N) :
    List.range N = List.range n ++ List.range' n (N - n) := by
  have h1 := List.range'_append_1 (s := 0) (m := n) (n := N - n)
  rw [Nat.zero_add] at h1
  rw [List.range_eq_range', List.range_eq_range', h1]
  congr 1
  omega

/-- trailing zero terms can be dropped -/
theorem sum_range_truncate (f : Nat → Int) {n N : Nat} (h : n ≤ N)
    (hz : ∀ j, n ≤ j → j < N → f j = 0) :
    ((List.range N).map f).sum = ((List.range n).map f).sum := by
  rw [range_split h, List.map_append, List.sum_append, sum_map_zero (l := List.range' n (N - n)), Int.add_zero]
  intro j hj
  rw [List.mem_range'_1] at hj
  exact hz j hj.1 (by omega)

/-- a guarded sum over `range n` whose summand vanishes beyond `n` is the sum over `range (k+1)` -/
theorem sum_range_guard (f : Nat → Int) (n k : Nat) (hz : ∀ j, n ≤ j → f j = 0) :
    ((List.range n).map (fun j => if j ≤ k then f j else 0)).sum
      = ((List.range (k + 1)).map f).sum := by
  have h1 : ((List.range (max n (k + 1))).map (fun j => if j ≤ k then f j else 0)).sum
      = ((List.range n).map (fun j => if j ≤ k then f j else 0)).sum := by
    apply sum_range_truncate _ (Nat.le_max_left _ _)
    intro j hj _
    simp only [hz j hj, ite_self]
  have h2 : ((List.range (max n (k + 1))).map (fun j => if j ≤ k then f j else 0)).sum
      = ((List.range (k + 1)).map (fun j => if j ≤ k then f j else 0)).sum := by
    apply sum_range_truncate _ (Nat.le_max_right _ _)
    intro j hj _
    rw [if_neg (by omega)]
  rw [← h1, h2]
  apply sum_map_congr
  intro j hj
  rw [List.mem_range] at hj
  rw [if_pos (by omega)]

/-- reflect the summation index -/
theorem sum_range_reflect (f : Nat → Int) (n : Nat) :
    ((List.range n).map (fun j => f (n - 1 - j))).sum = ((List.range n).map f).sum := by
  induction n with
  | zero => rfl
  | succ n ih =>
    have hR : ((List.range (n + 1)).map f).sum = ((List.range n).map f).sum + f n := by
      rw [List.range_succ, List.map_append, List.sum_append]
      simp
    have hL : ((List.range (n + 1)).map (fun j => f (n + 1 - 1 - j))).sum
        = f n + ((List.range n).map (fun j => f (n - 1 - j))).sum := by
      rw [List.range_succ_eq_map]
      simp only [List.map_cons, List.map_map, List.sum_cons]
      congr 1
      apply sum_map_congr
      intro j _
      simp only [Function.comp]
      congr 1
      omega
    rw [hL, hR, ih, Int.add_comm]

/-! ## Zero padding -/

theorem padTo_getD (N : Nat) (x : List Int) (i : Nat) :
    (padTo N x).getD i 0 = if i < N then x.getD i 0 else 0 := by
  unfold padTo
  by_cases h : i < N
  · simp [List.getD_eq_getElem?_getD, h]
  · simp [List.getD_eq_getElem?_getD, h]

theorem getD_zero_of_le (x : List Int) (i : Nat) (h : x.length ≤ i) : x.getD i 0 = 0 := by
  simp [List.getD_eq_getElem?_getD, h]

theorem getD_map_range (F : Nat → Int) (n k : Nat) (hk : k < n) :
    ((List.range n).map F).getD k 0 = F k := by
  simp [List.getD_eq_getElem?_getD, hk]

theorem getD_reverse (b : List Int) (j : Nat) (hj : j < b.length) :
    b.reverse.getD j 0 = b.getD (b.length - 1 - j) 0 := by
  simp [List.getD_eq_getElem?_getD, List.getElem?_reverse hj]

/-! ## The circular product of padded series -/

/-- entry `k < n1+n2-1 ≤ N` of the circular convolution of the padded series is the linear one -/
theorem cconv_pad_entry (N : Nat) (a b : List Int) (hb : 0 < b.length)
    (hN : a.length + b.length - 1 ≤ N)
    (k : Nat) (hk : k < a.length + b.length - 1) :
    ((List.range N).map (fun j =>
        (padTo N a).getD j 0 * (padTo N b).getD ((k + N - j) % N) 0)).sum
      = ((List.range a.length).map (fun j =>
        if j ≤ k then a.getD j 0 * b.getD (k - j) 0 else 0)).sum := by
  have haN : a.length ≤ N := by omega
  rw [sum_range_truncate _ haN]
  · apply sum_map_congr
    intro j hj
    rw [List.mem_range] at hj
    rw [padTo_getD, if_pos (by omega), padTo_getD, if_pos (Nat.mod_lt _ (by omega))]
    by_cases hjk : j ≤ k
    · rw [if_pos hjk]
      have : k + N - j = (k - j) + N := by omega
      rw [this, Nat.add_mod_right, Nat.mod_eq_of_lt (by omega)]
    · rw [if_neg hjk, Nat.mod_eq_of_lt (by omega), getD_zero_of_le b _ (by omega), Int.mul_zero]
  · intro j hj hjN
    rw [padTo_getD, if_pos hjN, getD_zero_of_le a j hj, Int.zero_mul]

/-! ## Two views of the linear convolution sum -/

/-- entry `k` of the linear convolution, summed over the first factor's index up to `k` -/
theorem lconv_sum_left (a b : List Int) (k : Nat) :
    ((List.range a.length).map (fun j => if j ≤ k then a.getD j 0 * b.getD (k - j) 0 else 0)).sum
      = ((List.range (k + 1)).map (fun j => a.getD j 0 * b.getD (k - j) 0)).sum := by
  apply sum_range_guard (fun j => a.getD j 0 * b.getD (k - j) 0)
  intro j hj
  simp only [getD_zero_of_le a j hj, Int.zero_mul]

/-- the same entry, summed over the second factor's index -/
theorem lconv_sum_right (a b : List Int) (k : Nat) :
    ((List.range b.length).map (fun j =>
        if j ≤ k ∧ k - j < a.length then a.getD (k - j) 0 * b.getD j 0 else 0)).sum
      = ((List.range (k + 1)).map (fun j => a.getD j 0 * b.getD (k - j) 0)).sum := by
  have h1 : ((List.range b.length).map (fun j =>
        if j ≤ k ∧ k - j < a.length then a.getD (k - j) 0 * b.getD j 0 else 0)).sum
      = ((List.range b.length).map (fun j =>
        if j ≤ k then a.getD (k - j) 0 * b.getD j 0 else 0)).sum := by
    apply sum_map_congr
    intro j _
    by_cases h1 : j ≤ k
    · by_cases h2 : k - j < a.length
      · rw [if_pos ⟨h1, h2⟩, if_pos h1]
      · rw [if_neg (fun h => h2 h.2), if_pos h1, getD_zero_of_le a _ (by omega), Int.zero_mul]
    · rw [if_neg (fun h => h1 h.1), if_neg h1]
  rw [h1, sum_range_guard (fun j => a.getD (k - j) 0 * b.getD j 0) _ _
    (fun j hj => by simp only [getD_zero_of_le b j hj, Int.mul_zero])]
  rw [← sum_range_reflect (fun j => a.getD j 0 * b.getD (k - j) 0) (k + 1)]
  apply sum_map_congr
  intro j hj
  rw [List.mem_range] at hj
  simp only [Nat.add_sub_cancel]
  congr 2
  omega

end SppModel.Conv

import SppModel.Model.FoldedCube
import SppModel.Lemmas.Dedisp
import Mathlib.Data.List.Rotate
import Mathlib.Tactic.Ring
/-! Helper lemmas for C17 (`FoldedData.update_dm / update_period`): `rollP` is a
rotation that composes additively, the shape predicate `Shaped`, the "last
target" projections `lastDm` / `lastPeriod` of a history, and the invariant
`Inv` (every profile is the ORIGINAL profile rolled by `fph[b] + tph[i]`)
preserved by both updates. -/
namespace SppModel.FoldedCube
open SppModel SppModel.Dedisp

/-! ## `rollP` -/

theorem rollP_length' (p : List Int) (k : Int) : (rollP p k).length = p.length :=
  rollRow_length' p (-k)

theorem rollP_nil (k : Int) : rollP [] k = [] := rollRow_nil (-k)

/-- output bin `t` of `np.roll(p, -k)` is input bin `(t + k) mod n` -/
theorem rollP_get (p : List Int) (k : Int) (t : Nat) (ht : t < p.length) :
    (rollP p k)[t]? = p[(((t : Int) + k) % (p.length : Int)).toNat]? :=
  rollRow_get' p k t ht

theorem rollP_rollP' (p : List Int) (a b : Int) : rollP (rollP p a) b = rollP p (a + b) := by
  apply List.ext_getElem?
  intro t
  by_cases ht : t < p.length
  · have hn : (0 : Int) < p.length := by omega
    have g0 := Int.emod_nonneg ((t : Int) + b) hn.ne'
    have g1 := Int.emod_lt_of_pos ((t : Int) + b) hn
    have ht' : (((t : Int) + b) % (p.length : Int)).toNat < p.length := by omega
    rw [rollP_get _ b t (by rw [rollP_length']; exact ht), rollP_length', rollP_get p a _ ht',
      rollP_get p (a + b) t ht, Int.toNat_of_nonneg g0, Int.emod_add_emod]
    have e : (t : Int) + b + a = (t : Int) + (a + b) := by ring
    rw [e]
  · have h1 : (rollP (rollP p a) b).length ≤ t := by
      rw [rollP_length', rollP_length']; omega
    have h2 : (rollP p (a + b)).length ≤ t := by rw [rollP_length']; omega
    rw [List.getElem?_eq_none h1, List.getElem?_eq_none h2]

theorem rollP_zero' (p : List Int) : rollP p 0 = p := by
  simp [rollP, rollRow]

theorem rollP_perm' (p : List Int) (k : Int) : (rollP p k).Perm p := by
  unfold rollP
  rw [rollRow_eq_rotate]
  exact List.rotate_perm _ _

/-! ## list plumbing -/

theorem getD_replicate_zero (n b : Nat) : (List.replicate n (0 : Int)).getD b 0 = 0 := by
  by_cases hb : b < n
  · simp [List.getD_eq_getElem?_getD, hb]
  · simp [List.getD_eq_getElem?_getD, Nat.le_of_not_lt hb]

theorem getD_map_lt {α β} (f : α → β) (l : List α) (b : Nat) (hb : b < l.length) (d : α) (d' : β) :
    (l.map f).getD b d' = f (l.getD b d) := by
  simp [List.getD_eq_getElem?_getD, hb]

theorem getD_lt {α} (l : List α) (i : Nat) (d : α) (h : i < l.length) : l.getD i d = l[i] := by
  simp [List.getD_eq_getElem?_getD, h]

/-! ## shape -/

/-- a cube is well-shaped: `ni` sub-integrations × `nb` sub-bands -/
def Shaped (data : List (List (List Int))) (ni nb : Nat) : Prop :=
  data.length = ni ∧ ∀ sub ∈ data, sub.length = nb

instance (data : List (List (List Int))) (ni nb : Nat) : Decidable (Shaped data ni nb) := by
  unfold Shaped; infer_instance

theorem Shaped.row {data : List (List (List Int))} {ni nb : Nat} (hs : Shaped data ni nb) (i : Nat)
    (hi : i < ni) : (data.getD i []).length = nb :=
  hs.2 _ (getD_mem_of_lt data i [] (by rw [hs.1]; exact hi))

/-- two cubes of the same shape with equal profiles are equal -/
theorem shaped_ext {x y : List (List (List Int))} {ni nb : Nat} (hx : Shaped x ni nb)
    (hy : Shaped y ni nb)
    (h : ∀ i b, i < ni → b < nb → (x.getD i []).getD b [] = (y.getD i []).getD b []) : x = y := by
  apply List.ext_getElem (by rw [hx.1, hy.1])
  intro i h1 h2
  have hi : i < ni := by rw [← hx.1]; exact h1
  have lx : x[i].length = nb := hx.2 _ (List.getElem_mem h1)
  have ly : y[i].length = nb := hy.2 _ (List.getElem_mem h2)
  apply List.ext_getElem (by rw [lx, ly])
  intro b hb1 hb2
  have := h i b hi (by omega)
  rw [getD_lt _ _ _ h1, getD_lt _ _ _ h2, getD_lt _ _ _ hb1, getD_lt _ _ _ hb2] at this
  exact this

/-! ## last targets of a history -/

/-- a drift vector normalised to length `n` (what the implementation stores) -/
def norm (n : Nat) (d : List Int) : List Int := (List.range n).map (fun b => d.getD b 0)

/-- last DM drift of a history (zero vector if the history has none) -/
def lastDm (nb : Nat) (ops : List Op) : List Int :=
  ops.foldl (fun acc op => match op with
    | .dm d => norm nb d
    | .period _ => acc) (List.replicate nb 0)

/-- last period drift of a history (zero vector if the history has none) -/
def lastPeriod (ni : Nat) (ops : List Op) : List Int :=
  ops.foldl (fun acc op => match op with
    | .dm _ => acc
    | .period d => norm ni d) (List.replicate ni 0)

theorem norm_length (n : Nat) (d : List Int) : (norm n d).length = n := by simp [norm]

theorem norm_getD (n : Nat) (d : List Int) (b : Nat) (hb : b < n) : (norm n d).getD b 0 = d.getD b 0 :=
  getD_map_range _ _ _ _ hb

theorem lastDm_nil (nb : Nat) : lastDm nb [] = List.replicate nb 0 := rfl
theorem lastPeriod_nil (ni : Nat) : lastPeriod ni [] = List.replicate ni 0 := rfl

theorem lastDm_snoc_dm (nb : Nat) (ops : List Op) (d : List Int) :
    lastDm nb (ops ++ [.dm d]) = norm nb d := by
  simp [lastDm, List.foldl_append]

theorem lastDm_snoc_period (nb : Nat) (ops : List Op) (d : List Int) :
    lastDm nb (ops ++ [.period d]) = lastDm nb ops := by
  simp [lastDm, List.foldl_append]

theorem lastPeriod_snoc_dm (ni : Nat) (ops : List Op) (d : List Int) :
    lastPeriod ni (ops ++ [.dm d]) = lastPeriod ni ops := by
  simp [lastPeriod, List.foldl_append]

theorem lastPeriod_snoc_period (ni : Nat) (ops : List Op) (d : List Int) :
    lastPeriod ni (ops ++ [.period d]) = norm ni d := by
  simp [lastPeriod, List.foldl_append]

theorem run_snoc (st : St) (ops : List Op) (op : Op) : run st (ops ++ [op]) = step (run st ops) op := by
  simp [run, List.foldl_append]

theorem run_append (st : St) (xs ys : List Op) : run st (xs ++ ys) = run (run st xs) ys := by
  simp [run, List.foldl_append]

/-! ## the invariant -/

/-- the data part of the invariant: shape, `tph` length and "profile (i,b) is the
original rolled by `fph[b] + tph[i]`" -/
structure Inv (data : List (List (List Int))) (ni nb : Nat) (st : St) : Prop where
  fphLen : 0 < ni → st.fph.length = nb
  tphLen : st.tph.length = ni
  shaped : Shaped st.data ni nb
  prof : ∀ i b, i < ni → b < nb →
    (st.data.getD i []).getD b [] =
      rollP ((data.getD i []).getD b []) (st.fph.getD b 0 + st.tph.getD i 0)

theorem inv_init (data : List (List (List Int))) (ni nb : Nat) (hs : Shaped data ni nb) :
    Inv data ni nb (init data) where
  fphLen := fun h => by
    simp only [init, List.length_replicate]
    exact hs.row 0 h
  tphLen := by simp [init, hs.1]
  shaped := hs
  prof := fun i b _ _ => by
    simp only [init, getD_replicate_zero, Int.add_zero, rollP_zero']

theorem inv_updateDm {data : List (List (List Int))} {ni nb : Nat} {st : St}
    (h : Inv data ni nb st) (d : List Int) : Inv data ni nb (updateDm st d) where
  fphLen := fun hn => by simp [updateDm, h.fphLen hn]
  tphLen := h.tphLen
  shaped := by
    refine ⟨by simp [updateDm, h.shaped.1], ?_⟩
    intro sub hsub
    simp only [updateDm, List.mem_map] at hsub
    obtain ⟨s, hs, rfl⟩ := hsub
    simp [h.shaped.2 s hs]
  prof := fun i b hi hb => by
    have hfl : st.fph.length = nb := h.fphLen (by omega)
    have hil : i < st.data.length := by rw [h.shaped.1]; exact hi
    have hrow : (st.data.getD i []).length = nb := h.shaped.row i hi
    have hbf : b < st.fph.length := by rw [hfl]; exact hb
    simp only [updateDm]
    rw [getD_map_lt _ st.data i hil [] [], hrow, getD_map_range _ _ _ _ hb,
      getD_map_range _ _ _ _ hbf, getD_map_range _ _ _ _ hbf, h.prof i b hi hb, rollP_rollP']
    congr 1
    ring

theorem inv_updatePeriod {data : List (List (List Int))} {ni nb : Nat} {st : St}
    (h : Inv data ni nb st) (d : List Int) : Inv data ni nb (updatePeriod st d) where
  fphLen := h.fphLen
  tphLen := by simp [updatePeriod, h.tphLen]
  shaped := by
    refine ⟨by simp [updatePeriod, h.shaped.1], ?_⟩
    intro sub hsub
    simp only [updatePeriod, List.mem_map, List.mem_range] at hsub
    obtain ⟨i, hi, rfl⟩ := hsub
    rw [List.length_map]
    exact h.shaped.row i (by rw [← h.shaped.1]; exact hi)
  prof := fun i b hi hb => by
    have hil : i < st.data.length := by rw [h.shaped.1]; exact hi
    have hit : i < st.tph.length := by rw [h.tphLen]; exact hi
    have hrow : (st.data.getD i []).length = nb := h.shaped.row i hi
    have hbr : b < (st.data.getD i []).length := by rw [hrow]; exact hb
    simp only [updatePeriod]
    rw [getD_map_range _ _ _ _ hil, getD_map_lt _ _ b hbr [] [], getD_map_range _ _ _ _ hit,
      getD_map_range _ _ _ _ hit, h.prof i b hi hb, rollP_rollP']
    congr 1
    ring

theorem inv_step {data : List (List (List Int))} {ni nb : Nat} {st : St}
    (h : Inv data ni nb st) (op : Op) : Inv data ni nb (step st op) := by
  cases op with
  | dm d => exact inv_updateDm h d
  | period d => exact inv_updatePeriod h d

theorem inv_run {data : List (List (List Int))} {ni nb : Nat} {st : St}
    (h : Inv data ni nb st) (ops : List Op) : Inv data ni nb (run st ops) := by
  induction ops generalizing st with
  | nil => exact h
  | cons op ops ih => exact ih (inv_step h op)

/-- `tph` always tracks the last period target (needs only the length of `tph`) -/
theorem tph_run (data : List (List (List Int))) (ni nb : Nat) (hs : Shaped data ni nb) (ops : List Op) :
    (run (init data) ops).tph = lastPeriod ni ops := by
  induction ops using List.reverseRecOn with
  | nil => simp [run, init, lastPeriod, hs.1]
  | append_singleton ops op ih =>
    have hl := (inv_run (inv_init data ni nb hs) ops).tphLen
    rw [run_snoc]
    cases op with
    | dm d => rw [lastPeriod_snoc_dm, ← ih]; rfl
    | period d =>
      rw [lastPeriod_snoc_period]
      simp only [step, updatePeriod, hl]
      rfl

/-- `fph` tracks the last DM target as soon as the cube has a first sub-integration
(`init` reads the number of sub-bands off `data[0]`) -/
theorem fph_run (data : List (List (List Int))) (ni nb : Nat) (hs : Shaped data ni nb)
    (hne : ni = 0 → nb = 0) (ops : List Op) :
    (run (init data) ops).fph = lastDm nb ops := by
  have hlen0 : (data.getD 0 []).length = nb := by
    rcases Nat.eq_zero_or_pos ni with h0 | hpos
    · have : data = [] := List.eq_nil_of_length_eq_zero (by rw [hs.1, h0])
      subst this
      simp [hne h0]
    · exact hs.row 0 hpos
  have hlen : ∀ ops : List Op, (run (init data) ops).fph.length = nb := by
    intro ops
    induction ops using List.reverseRecOn with
    | nil =>
      simp only [run, init, List.foldl_nil, List.length_replicate]
      exact hlen0
    | append_singleton ops op ih =>
      rw [run_snoc]
      cases op with
      | dm d => simp [step, updateDm, ih]
      | period d => simpa [step, updatePeriod] using ih
  induction ops using List.reverseRecOn with
  | nil =>
    show List.replicate (data.getD 0 []).length 0 = List.replicate nb 0
    rw [hlen0]
  | append_singleton ops op ih =>
    rw [run_snoc]
    cases op with
    | dm d =>
      rw [lastDm_snoc_dm]
      simp only [step, updateDm, hlen ops]
      rfl
    | period d => rw [lastDm_snoc_period, ← ih]; rfl

/-! ## idempotence (no shape hypothesis needed) -/

theorem bin_self (n : Nat) (d : List Int) (b : Nat) :
    ((List.range n).map
      (fun b => d.getD b 0 - ((List.range n).map (fun b => d.getD b 0)).getD b 0)).getD b 0 = 0 := by
  by_cases hb : b < n
  · rw [getD_map_range _ _ _ _ hb, getD_map_range _ _ _ _ hb]; omega
  · simp [List.getD_eq_getElem?_getD, Nat.le_of_not_lt hb]

theorem updateDm_idem (st : St) (d : List Int) : updateDm (updateDm st d) d = updateDm st d := by
  simp only [updateDm, List.length_map, List.length_range, bin_self, rollP_zero', List.map_map,
    St.mk.injEq, and_true]
  apply List.map_congr_left
  intro sub _
  simp only [Function.comp, List.length_map, List.length_range]
  apply List.map_congr_left
  intro b hb
  rw [getD_map_range _ _ _ _ (List.mem_range.mp hb)]

theorem updatePeriod_idem (st : St) (d : List Int) :
    updatePeriod (updatePeriod st d) d = updatePeriod st d := by
  simp only [updatePeriod, List.length_map, List.length_range, bin_self, rollP_zero', List.map_id',
    St.mk.injEq, and_true]
  apply List.map_congr_left
  intro i hi
  rw [getD_map_range _ _ _ _ (List.mem_range.mp hi)]

end SppModel.FoldedCube

import SppModel.Model.Meta
import SppModel.Generated.HeaderUpdates
import SppModel.Frozen.HeaderUpdates
import Mathlib.Tactic.Ring
import Mathlib.Tactic.FieldSimp
import Mathlib.Tactic.Linarith
import Mathlib.Tactic.NormNum
import Mathlib.Algebra.Order.Field.Rat
/-! Helper lemmas for C08: `Rat.floor` characterisation, `floorQ`/`roundHalfEven` on
integers and near integers. -/
namespace SppModel.Meta

/-- characterisation of core `Rat.floor` -/
theorem ratFloor_eq {q : ℚ} {z : ℤ} (h1 : (z : ℚ) ≤ q) (h2 : q < (z : ℚ) + 1) : q.floor = z := by
  have a : z ≤ q.floor := Rat.le_floor_iff.mpr h1
  have b : q.floor < z + 1 := Rat.floor_lt_iff.mpr (by push_cast; exact h2)
  omega

theorem floorQ_intCast (z : ℤ) : floorQ (z : ℚ) = z := by
  simp [floorQ, Rat.floor_intCast]

theorem floorQ_natCast (n : ℕ) : floorQ (n : ℚ) = n := by
  have := floorQ_intCast (n : ℤ)
  simpa using this

/-- the channels-per-subband quotient is exact when `nsub` divides `nchans` -/
theorem floorQ_mul_div (per nsub : ℕ) (hn : 0 < nsub) :
    floorQ (((per * nsub : ℕ) : ℚ) / ((nsub : ℕ) : ℚ)) = per := by
  have hq : ((nsub : ℕ) : ℚ) ≠ 0 := by exact_mod_cast hn.ne'
  have : ((per * nsub : ℕ) : ℚ) / ((nsub : ℕ) : ℚ) = ((per : ℕ) : ℚ) := by
    push_cast; field_simp
  rw [this, floorQ_natCast]

theorem roundHalfEven_intCast (j : ℤ) : roundHalfEven (j : ℚ) = j := by
  simp [roundHalfEven, Rat.floor_intCast]

/-- `round` recovers the integer from anything closer than half a channel -/
theorem roundHalfEven_near' (j : ℤ) (ε : ℚ) (h1 : -(1 / 2) < ε) (h2 : ε < 1 / 2) :
    roundHalfEven ((j : ℚ) + ε) = j := by
  rcases lt_or_ge ε 0 with hneg | hpos
  · have hf : ((j : ℚ) + ε).floor = j - 1 :=
      ratFloor_eq (by push_cast; linarith) (by push_cast; linarith)
    have hr1 : ¬ ((j : ℚ) + ε - ((j - 1 : ℤ) : ℚ) < 1 / 2) := by push_cast; linarith
    have hr2 : ((j : ℚ) + ε - ((j - 1 : ℤ) : ℚ) > 1 / 2) := by push_cast; linarith
    simp only [roundHalfEven, hf, hr1, hr2, if_true, if_false]
    push_cast; ring
  · have hf : ((j : ℚ) + ε).floor = j :=
      ratFloor_eq (by linarith) (by linarith)
    have hr1 : ((j : ℚ) + ε - ((j : ℤ) : ℚ) < 1 / 2) := by linarith
    simp only [roundHalfEven, hf, hr1, if_true]

end SppModel.Meta

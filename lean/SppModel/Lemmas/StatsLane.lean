import SppModel.Frozen.StatsLane
import SppModel.Lemmas.Robust
/-!
Helper lemmas for the source tie of the robust estimators (`Props/Tie/StatsLane.lean`): the NumPy lane primitives
(`Model/NpPrims.lean`) expressed through the hand model (`Model/Robust.lean`), and a normal form of the translated
`_scale_doublemad` with its behaviour under affine maps.
-/
namespace SppModel.Np
open SppModel SppModel.Robust

/-! ### `triu1` of the outer difference matrix = `pairDiffs`; the gapper weights -/

theorem triu1_cons (r : List ℚ) (rows : List (List ℚ)) :
    triu1 (r :: rows) = r.drop 1 ++ triu1 (rows.map (fun row => row.drop 1)) := by
  unfold triu1
  rw [List.length_cons, List.range_succ_eq_map, List.flatMap_cons, List.flatMap_map, List.length_map]
  congr 1
  apply List.flatMap_congr
  intro i hi
  rw [List.mem_range] at hi
  simp [List.getD_eq_getElem?_getD, List.getElem?_eq_getElem hi, List.getElem?_map]

theorem triu1_absM_outerSub (xs : List ℚ) : triu1 (absM (outerSub xs)) = pairDiffs xs := by
  induction xs with
  | nil => rfl
  | cons x rest ih =>
    rw [pairDiffs, ← ih]
    simp only [absM, outerSub, absV, List.map_cons, List.map_map, triu1_cons, List.drop_one, List.tail_cons,
      Function.comp_def]

theorem diff_eq_range (s : List ℚ) :
    diff s = (List.range (s.length - 1)).map (fun i => s.getD (i + 1) 0 - s.getD i 0) := by
  unfold diff
  apply List.ext_getElem
  · simp
  · intro i h1 h2
    simp at h1 h2
    have h3 : i + 1 < s.length := by omega
    have h4 : i < s.length := by omega
    simp [List.getD_eq_getElem?_getD, List.getElem?_eq_getElem h3, List.getElem?_eq_getElem h4]

theorem gapper_weights (n : Nat) :
    mulV (arangeUp 1 n) (arangeDown (n - 1) 0)
      = (List.range (n - 1)).map (fun i => (((i + 1) * (n - 1 - i) : Nat) : ℚ)) := by
  unfold mulV arangeUp arangeDown
  rw [Nat.sub_zero, List.zipWith_map, List.zipWith_self]
  apply List.map_congr_left; intro i _
  rw [Nat.add_comm 1 i]; push_cast; rfl

theorem gapper_dot (s : List ℚ) :
    dot (mulV (arangeUp 1 s.length) (arangeDown (s.length - 1) 0)) (diff s) = gapS s := by
  rw [gapper_weights, diff_eq_range]
  unfold dot gapS
  rw [List.zipWith_map, List.zipWith_self]

end SppModel.Np

namespace SppModel.Robust
open SppModel SppModel.Np

/-! ### doublemad normal form -/

theorem nanvals_whereNan_map (p : ℚ → Bool) (f : ℚ → ℚ) (xs : List ℚ) :
    nanvals (whereNan (xs.map p) (xs.map f)) = (xs.filter p).map f := by
  unfold nanvals whereNan
  induction xs with
  | nil => rfl
  | cons x rest ih =>
    rw [List.map_cons, List.map_cons, List.zipWith_cons_cons, List.filter_cons]
    cases hp : p x
    · simp only [Bool.false_eq_true, if_false, List.filterMap_cons, id]; exact ih
    · simp only [if_true, List.filterMap_cons, id, List.map_cons]; exact congrArg _ ih

/-- one side of `doublemad`: the MAD of the deviations with its zero fallback to the mean deviation -/
def dmSide (norm c : ℚ) (L : List ℚ) : ℚ :=
  if median L / norm = 0 then mean L / c else median L / norm

def dmLeft (loc : ℚ) (xs : List ℚ) : List ℚ :=
  (xs.filter (fun x => decide (x ≤ loc))).map (fun x => absQ (x - loc))
def dmRight (loc : ℚ) (xs : List ℚ) : List ℚ :=
  (xs.filter (fun x => decide (x ≥ loc))).map (fun x => absQ (x - loc))

def dmNorm : ℚ := (6075263575296585 : ℚ) / 9007199254740992

theorem doublemad_eq (c : ℚ) (xs : List ℚ) :
    Frozen.StatsLane._scale_doublemad c xs =
      xs.map (fun x =>
        if x < Robust.median xs then dmSide dmNorm c (dmLeft (Robust.median xs) xs)
        else if x > Robust.median xs then dmSide dmNorm c (dmRight (Robust.median xs) xs)
        else (1 / 2) * (dmSide dmNorm c (dmLeft (Robust.median xs) xs)
          + dmSide dmNorm c (dmRight (Robust.median xs) xs))) := by
  simp only [Frozen.StatsLane._scale_doublemad, Np.median, Np.subS, Np.absV, Np.leS, Np.geS, Np.ltS, Np.gtS,
    Np.nanmedian, Np.nanmean, Np.mean, Np.isclose0, Np.whereS, Np.whereMSV, Np.whereMS, List.map_map,
    nanvals_whereNan_map, List.zipWith_map, List.zipWith_self, decide_eq_true_eq, Function.comp_def,
    dmSide, dmLeft, dmRight, dmNorm]
  apply List.map_congr_left; intro x _
  by_cases h1 : x < median xs <;> by_cases h2 : x > median xs <;>
    simp only [h1, h2, decide_true, decide_false, if_true, if_false, Bool.false_eq_true] <;> congr

theorem median_scale (a : ℚ) (ha : a ≠ 0) (L : List ℚ) :
    Robust.median (L.map (fun x => a * x)) = a * Robust.median L := by
  cases L with
  | nil => simp [Robust.median, Robust.sortQ]
  | cons x rest =>
    have h := median_aff_lem a 0 ha (x :: rest) (by simp)
    simp only [aff, add_zero] at h
    exact h

theorem mean_scale (a : ℚ) (L : List ℚ) :
    Robust.mean (L.map (fun x => a * x)) = a * Robust.mean L := by
  cases L with
  | nil => simp [Robust.mean]
  | cons x rest =>
    have h := mean_aff_lem a 0 (x :: rest) (by simp)
    simp only [aff, add_zero] at h
    exact h

theorem dmSide_scale (norm c a : ℚ) (ha : a ≠ 0) (L : List ℚ) :
    dmSide norm c (L.map (fun x => a * x)) = a * dmSide norm c L := by
  unfold dmSide
  rw [median_scale a ha, mean_scale]
  have e : a * Robust.median L / norm = a * (Robust.median L / norm) := by ring
  rw [e]
  by_cases hm : Robust.median L / norm = 0
  · rw [if_pos hm, if_pos (by rw [hm]; ring)]; ring
  · rw [if_neg hm, if_neg (mul_ne_zero ha hm)]

theorem dmLeft_aff_pos (a b loc : ℚ) (ha : 0 < a) (xs : List ℚ) :
    dmLeft (a * loc + b) (aff a b xs) = (dmLeft loc xs).map (fun x => a * x) := by
  unfold dmLeft aff
  rw [List.filter_map, List.map_map, List.map_map]
  have : ((fun x => decide (x ≤ a * loc + b)) ∘ fun x => a * x + b) = fun x => decide (x ≤ loc) := by
    funext x; simp only [Function.comp]; congr 1; apply propext
    constructor <;> intro h <;> nlinarith
  rw [this]
  apply List.map_congr_left; intro x _
  simp only [Function.comp]; rw [absQ_aff_sub, absQ_of_pos ha]

theorem dmRight_aff_pos (a b loc : ℚ) (ha : 0 < a) (xs : List ℚ) :
    dmRight (a * loc + b) (aff a b xs) = (dmRight loc xs).map (fun x => a * x) := by
  unfold dmRight aff
  rw [List.filter_map, List.map_map, List.map_map]
  have : ((fun x => decide (x ≥ a * loc + b)) ∘ fun x => a * x + b) = fun x => decide (x ≥ loc) := by
    funext x; simp only [Function.comp]; congr 1; apply propext
    constructor <;> intro h <;> nlinarith
  rw [this]
  apply List.map_congr_left; intro x _
  simp only [Function.comp]; rw [absQ_aff_sub, absQ_of_pos ha]

theorem dmLeft_aff_neg (a b loc : ℚ) (ha : a < 0) (xs : List ℚ) :
    dmLeft (a * loc + b) (aff a b xs) = (dmRight loc xs).map (fun x => -a * x) := by
  unfold dmLeft dmRight aff
  rw [List.filter_map, List.map_map, List.map_map]
  have : ((fun x => decide (x ≤ a * loc + b)) ∘ fun x => a * x + b) = fun x => decide (x ≥ loc) := by
    funext x; simp only [Function.comp]; congr 1; apply propext
    constructor <;> intro h <;> nlinarith
  rw [this]
  apply List.map_congr_left; intro x _
  simp only [Function.comp]; rw [absQ_aff_sub, absQ_of_neg ha]

theorem dmRight_aff_neg (a b loc : ℚ) (ha : a < 0) (xs : List ℚ) :
    dmRight (a * loc + b) (aff a b xs) = (dmLeft loc xs).map (fun x => -a * x) := by
  unfold dmLeft dmRight aff
  rw [List.filter_map, List.map_map, List.map_map]
  have : ((fun x => decide (x ≥ a * loc + b)) ∘ fun x => a * x + b) = fun x => decide (x ≤ loc) := by
    funext x; simp only [Function.comp]; congr 1; apply propext
    constructor <;> intro h <;> nlinarith
  rw [this]
  apply List.map_congr_left; intro x _
  simp only [Function.comp]; rw [absQ_aff_sub, absQ_of_neg ha]

end SppModel.Robust

import SppModel.Model.SigprocHeader
/-! Helper lemmas for C05 (core Lean only): the SIGPROC header codec. -/
namespace SppModel.Sigproc
open SppModel

/-- well-typed entry: key is in the table with the value's format, value well-formed,
    key length fits u32 -/
def EntryWF (kv : Bytes × Val) : Prop :=
  keyFmt kv.1 = some kv.2.fmt ∧ kv.2.WF ∧ kv.1.length < 2 ^ 32

instance (v : Val) : Decidable v.WF :=
  match v with
  | .u32 n => inferInstanceAs (Decidable (n < 2 ^ 32))
  | .f64 bs => inferInstanceAs (Decidable (bs.length = 8))
  | .i8 _ => inferInstanceAs (Decidable True)
  | .str s => inferInstanceAs (Decidable (s.length < 2 ^ 32))

instance (kv : Bytes × Val) : Decidable (EntryWF kv) :=
  inferInstanceAs (Decidable (keyFmt kv.1 = some kv.2.fmt ∧ kv.2.WF ∧ kv.1.length < 2 ^ 32))

/-- all bytes are real bytes -/
def IsBytes (bs : Bytes) : Prop := ∀ b ∈ bs, b < 256

/-! ### facts about the generated key table (re-checked by the kernel on every build) -/

theorem keyFmt_HEADER_END : keyFmt HEADER_END = none := by decide +kernel

theorem keyTable_len : ∀ p ∈ keyTable, p.1.length < 2 ^ 32 := by decide +kernel

theorem HEADER_START_length : HEADER_START.length = 12 := by decide +kernel

theorem HEADER_END_length : HEADER_END.length = 10 := by decide +kernel

theorem keyFmt_len {k : Bytes} {f : Fmt} (h : keyFmt k = some f) : k.length < 2 ^ 32 := by
  unfold keyFmt at h
  cases hf : keyTable.find? (·.1 == k) with
  | none => simp [hf] at h
  | some p =>
    have hm := List.mem_of_find?_eq_some hf
    have hp := List.find?_some hf
    have hk : p.1 = k := by simpa using hp
    have := keyTable_len p hm
    rw [hk] at this
    exact this

theorem ne_HEADER_END {k : Bytes} {f : Fmt} (h : keyFmt k = some f) : k ≠ HEADER_END := by
  intro hk
  rw [hk, keyFmt_HEADER_END] at h
  cases h

/-! ### u32 / string primitives -/

@[simp] theorem le32_length (n : Nat) : (le32 n).length = 4 := rfl

@[simp] theorem encStr_length (s : Bytes) : (encStr s).length = 4 + s.length := by
  simp [encStr]

theorem rd32_le32_lem (n : Nat) (h : n < 2 ^ 32) (rest : Bytes) :
    rd32 (le32 n ++ rest) = some (n, rest) := by
  simp only [le32, rd32, List.cons_append, List.nil_append, Option.some.injEq, Prod.mk.injEq,
    and_true]
  omega

theorem rdStr_encStr_lem (s rest : Bytes) (h : s.length < 2 ^ 32) :
    rdStr (encStr s ++ rest) = some (s, rest) := by
  unfold rdStr encStr
  rw [List.append_assoc, rd32_le32_lem _ h]
  simp

theorem rdVal_encVal (v : Val) (h : v.WF) (rest : Bytes) :
    rdVal v.fmt (encVal v ++ rest) = some (v, rest) := by
  cases v with
  | u32 n => simp [Val.fmt, rdVal, encVal, rd32_le32_lem n h]
  | f64 bs =>
    have h8 : bs.length = 8 := h
    simp [Val.fmt, rdVal, encVal, h8, List.take_left' h8, List.drop_left' h8]
  | i8 b => simp [Val.fmt, rdVal, encVal]
  | str s => simp [Val.fmt, rdVal, encVal, rdStr_encStr_lem s rest h]

/-! ### parse ∘ encode -/

theorem encodeBody_cons_wf (kv : Bytes × Val) (kvs : List (Bytes × Val)) (h : EntryWF kv) :
    encodeBody (kv :: kvs) = encStr kv.1 ++ encVal kv.2 ++ encodeBody kvs := by
  obtain ⟨k, v⟩ := kv
  simp [encodeBody, h.1, encodeKey]

theorem encodeBody_length_ge (kvs : List (Bytes × Val)) (h : ∀ kv ∈ kvs, EntryWF kv) :
    kvs.length ≤ (encodeBody kvs).length := by
  induction kvs with
  | nil => simp
  | cons kv kvs ih =>
    rw [encodeBody_cons_wf kv kvs (h kv (by simp))]
    have := ih (fun x hx => h x (by simp [hx]))
    simp only [List.length_cons, List.length_append, encStr_length]
    omega

theorem parseLoop_encode (kvs : List (Bytes × Val)) (h : ∀ kv ∈ kvs, EntryWF kv) (rest : Bytes)
    (fuel : Nat) (hf : kvs.length + 1 ≤ fuel) :
    parseLoop fuel (encodeBody kvs ++ encStr HEADER_END ++ rest) = .ok (kvs, rest) := by
  induction kvs generalizing fuel with
  | nil =>
    obtain ⟨fuel, rfl⟩ : ∃ g, fuel = g + 1 := ⟨fuel - 1, by simp at hf; omega⟩
    have hlen : HEADER_END.length < 2 ^ 32 := by rw [HEADER_END_length]; decide
    simp [encodeBody, parseLoop, rdStr_encStr_lem HEADER_END rest hlen]
  | cons kv kvs ih =>
    obtain ⟨fuel, rfl⟩ : ∃ g, fuel = g + 1 := ⟨fuel - 1, by simp at hf; omega⟩
    have hkv := h kv (by simp)
    have ih' := ih (fun x hx => h x (by simp [hx])) fuel (by simp at hf; omega)
    rw [encodeBody_cons_wf kv kvs hkv]
    obtain ⟨k, v⟩ := kv
    obtain ⟨hk, hv, hl⟩ := hkv
    simp only at hk hv hl
    have e : encStr k ++ encVal v ++ encodeBody kvs ++ encStr HEADER_END ++ rest
        = encStr k ++ (encVal v ++ (encodeBody kvs ++ encStr HEADER_END ++ rest)) := by
      simp [List.append_assoc]
    rw [e]
    unfold parseLoop
    simp only [rdStr_encStr_lem k _ hl, if_neg (ne_HEADER_END hk), hk, rdVal_encVal v hv, ih']

theorem parseHeader_encode (kvs : List (Bytes × Val)) (h : ∀ kv ∈ kvs, EntryWF kv) (rest : Bytes) :
    parseHeader (encodeHeader kvs ++ rest) = .ok (kvs, (encodeHeader kvs).length) := by
  have hlen : HEADER_START.length < 2 ^ 32 := by rw [HEADER_START_length]; decide
  have e : encodeHeader kvs ++ rest
      = encStr HEADER_START ++ (encodeBody kvs ++ encStr HEADER_END ++ rest) := by
    simp [encodeHeader, List.append_assoc]
  have hge := encodeBody_length_ge kvs h
  unfold parseHeader
  rw [e, rdStr_encStr_lem HEADER_START _ hlen]
  simp only [ne_eq, not_true_eq_false, if_false]
  rw [parseLoop_encode kvs h rest _ (by simp only [List.length_append]; omega)]
  simp only [encodeHeader, List.length_append, encStr_length]
  congr 2
  omega

/-! ### encode ∘ parse -/

theorem IsBytes.append_left {a b : Bytes} (h : IsBytes (a ++ b)) : IsBytes a :=
  fun x hx => h x (by simp [hx])

theorem IsBytes.append_right {a b : Bytes} (h : IsBytes (a ++ b)) : IsBytes b :=
  fun x hx => h x (by simp [hx])

theorem rd32_inv {bs r : Bytes} {n : Nat} (hb : IsBytes bs) (h : rd32 bs = some (n, r)) :
    bs = le32 n ++ r ∧ n < 2 ^ 32 := by
  match bs, h with
  | b0 :: b1 :: b2 :: b3 :: rest, h =>
    simp only [rd32, Option.some.injEq, Prod.mk.injEq] at h
    obtain ⟨rfl, rfl⟩ := h
    have h0 : b0 < 256 := hb b0 (by simp)
    have h1 : b1 < 256 := hb b1 (by simp)
    have h2 : b2 < 256 := hb b2 (by simp)
    have h3 : b3 < 256 := hb b3 (by simp)
    refine ⟨?_, by omega⟩
    simp only [le32, List.cons_append, List.nil_append, List.cons.injEq, and_true]
    refine ⟨by omega, by omega, by omega, by omega⟩

theorem rdStr_inv {bs s r : Bytes} (hb : IsBytes bs) (h : rdStr bs = some (s, r)) :
    bs = encStr s ++ r ∧ s.length < 2 ^ 32 := by
  unfold rdStr at h
  cases h32 : rd32 bs with
  | none => simp [h32] at h
  | some p =>
    obtain ⟨n, rest⟩ := p
    obtain ⟨e, hn⟩ := rd32_inv hb h32
    simp only [h32] at h
    split at h
    · cases h
    · rename_i hlen
      simp only [Option.some.injEq, Prod.mk.injEq] at h
      obtain ⟨rfl, rfl⟩ := h
      have hl : (List.take n rest).length = n := by simp; omega
      refine ⟨?_, by omega⟩
      rw [e, encStr, hl, List.append_assoc, List.take_append_drop]

theorem rdVal_inv {f : Fmt} {bs r : Bytes} {v : Val} (hb : IsBytes bs)
    (h : rdVal f bs = some (v, r)) : bs = encVal v ++ r ∧ v.fmt = f ∧ v.WF := by
  cases f with
  | I =>
    simp only [rdVal, Option.map_eq_some_iff] at h
    obtain ⟨⟨n, r'⟩, h32, he⟩ := h
    simp only [Prod.mk.injEq] at he
    obtain ⟨rfl, rfl⟩ := he
    obtain ⟨e, hn⟩ := rd32_inv hb h32
    exact ⟨e, rfl, hn⟩
  | d =>
    simp only [rdVal] at h
    split at h
    · cases h
    · rename_i hlen
      simp only [Option.some.injEq, Prod.mk.injEq] at h
      obtain ⟨rfl, rfl⟩ := h
      refine ⟨by simp [encVal], rfl, ?_⟩
      simp only [Val.WF, List.length_take]
      omega
  | b =>
    simp only [rdVal] at h
    split at h
    · simp only [Option.some.injEq, Prod.mk.injEq] at h
      obtain ⟨rfl, rfl⟩ := h
      exact ⟨rfl, rfl, trivial⟩
    · cases h
  | str =>
    simp only [rdVal, Option.map_eq_some_iff] at h
    obtain ⟨⟨s, r'⟩, hs, he⟩ := h
    simp only [Prod.mk.injEq] at he
    obtain ⟨rfl, rfl⟩ := he
    obtain ⟨e, hn⟩ := rdStr_inv hb hs
    exact ⟨e, rfl, hn⟩

theorem parseLoop_inv (fuel : Nat) (bs : Bytes) (kvs : List (Bytes × Val)) (r : Bytes)
    (hb : IsBytes bs) (h : parseLoop fuel bs = .ok (kvs, r)) :
    bs = encodeBody kvs ++ encStr HEADER_END ++ r ∧ ∀ kv ∈ kvs, EntryWF kv := by
  induction fuel generalizing bs kvs with
  | zero => simp [parseLoop] at h
  | succ fuel ih =>
    unfold parseLoop at h
    split at h
    · cases h
    · rename_i k rest hk
      obtain ⟨e, hkl⟩ := rdStr_inv hb hk
      split at h
      · rename_i hend
        simp only [Except.ok.injEq, Prod.mk.injEq] at h
        obtain ⟨rfl, rfl⟩ := h
        subst hend
        exact ⟨by simpa [encodeBody] using e, by simp⟩
      · split at h
        · cases h
        · rename_i f hf
          have hbr : IsBytes rest := by rw [e] at hb; exact hb.append_right
          split at h
          · cases h
          · rename_i v rest' hv
            obtain ⟨e', hvf, hvw⟩ := rdVal_inv hbr hv
            have hbr' : IsBytes rest' := by rw [e'] at hbr; exact hbr.append_right
            split at h
            · cases h
            · rename_i kvs' r' hrec
              simp only [Except.ok.injEq, Prod.mk.injEq] at h
              obtain ⟨rfl, rfl⟩ := h
              obtain ⟨e'', hwf⟩ := ih rest' kvs' hbr' hrec
              have hwf0 : EntryWF (k, v) := ⟨by simp [hf, hvf], hvw, hkl⟩
              refine ⟨?_, ?_⟩
              · rw [encodeBody_cons_wf _ _ hwf0, e, e', e'']
                simp [List.append_assoc]
              · intro kv hkv
                rcases List.mem_cons.1 hkv with rfl | hkv
                · exact hwf0
                · exact hwf kv hkv

theorem parseHeader_inv {bs : Bytes} {kvs : List (Bytes × Val)} {n : Nat} (hb : IsBytes bs)
    (h : parseHeader bs = .ok (kvs, n)) :
    ∃ r, bs = encodeHeader kvs ++ r ∧ n = (encodeHeader kvs).length ∧ ∀ kv ∈ kvs, EntryWF kv := by
  unfold parseHeader at h
  split at h
  · cases h
  · rename_i k rest hk
    obtain ⟨e, _⟩ := rdStr_inv hb hk
    split at h
    · cases h
    · rename_i hstart
      have hstart : k = HEADER_START := by simpa using hstart
      subst hstart
      have hbr : IsBytes rest := by rw [e] at hb; exact hb.append_right
      split at h
      · cases h
      · rename_i kvs' r hloop
        simp only [Except.ok.injEq, Prod.mk.injEq] at h
        obtain ⟨rfl, rfl⟩ := h
        obtain ⟨e', hwf⟩ := parseLoop_inv _ _ _ _ hbr hloop
        refine ⟨r, ?_, ?_, hwf⟩
        · rw [e, e']; simp [encodeHeader, List.append_assoc]
        · rw [e, e']
          simp only [encodeHeader, List.length_append]
          omega

/-- the header length returned by `parseHeader` never exceeds the file (no byte hypothesis) -/
theorem parseHeader_len_le {bs : Bytes} {kvs : List (Bytes × Val)} {n : Nat}
    (h : parseHeader bs = .ok (kvs, n)) : n ≤ bs.length := by
  unfold parseHeader at h
  split at h
  · cases h
  · split at h
    · cases h
    · split at h
      · cases h
      · simp only [Except.ok.injEq, Prod.mk.injEq] at h
        obtain ⟨_, rfl⟩ := h
        omega

/-! ### in-place edit -/

/-- the per-entry map inside `update` -/
def upd (key : Bytes) (val : Val) (kv : Bytes × Val) : Bytes × Val :=
  if kv.1 == key then (key, val) else kv

theorem update_eq (kvs : List (Bytes × Val)) (key : Bytes) (val : Val) :
    update kvs key val
      = if kvs.any (·.1 == key) then kvs.map (upd key val) else kvs ++ [(key, val)] := rfl

theorem encodeBody_append (a b : List (Bytes × Val)) :
    encodeBody (a ++ b) = encodeBody a ++ encodeBody b := by
  induction a with
  | nil => simp [encodeBody]
  | cons kv a ih => obtain ⟨k, v⟩ := kv; simp [encodeBody, ih, List.append_assoc]

/-- what `coerce` guarantees on its own: the right format, and range-checked integers -/
def Val.WF0 : Val → Prop
  | .u32 n => n < 2 ^ 32
  | _ => True

theorem coerce_ok {f : Fmt} {v : EditVal} {val : Val} (h : coerce f v = .ok val) :
    val.fmt = f ∧ val.WF0 := by
  cases f <;> cases v <;> simp only [coerce] at h
  all_goals first
    | (split at h <;> cases h)
    | cases h
  all_goals refine ⟨rfl, ?_⟩
  all_goals simp only [Val.WF0]
  all_goals omega

/-- replacing every `key` entry by a strictly longer value makes the body strictly longer -/
theorem encodeBody_map_lt (key : Bytes) (val : Val) (hk : (keyFmt key).isSome = true)
    (kvs : List (Bytes × Val))
    (h : ∀ kv ∈ kvs, kv.1 = key → (encVal kv.2).length < (encVal val).length) :
    (encodeBody kvs).length ≤ (encodeBody (kvs.map (upd key val))).length ∧
    (kvs.any (·.1 == key) = true →
      (encodeBody kvs).length < (encodeBody (kvs.map (upd key val))).length) := by
  induction kvs with
  | nil => simp
  | cons kv kvs ih =>
    obtain ⟨k, v⟩ := kv
    obtain ⟨ih1, ih2⟩ := ih (fun x hx => h x (by simp [hx]))
    by_cases hkk : k = key
    · subst hkk
      have hlt := h (k, v) (by simp) rfl
      simp only at hlt
      simp only [List.map_cons, upd, beq_self_eq_true, if_true, encodeBody, hk, encodeKey,
        List.length_append, encStr_length, List.any_cons, Bool.true_or, true_implies]
      omega
    · have hne : (k == key) = false := by simpa using hkk
      simp only [List.map_cons, upd, hne, encodeBody, List.length_append, List.any_cons,
        Bool.false_or, Bool.false_eq_true, if_false]
      refine ⟨by omega, fun ha => ?_⟩
      have := ih2 ha
      omega

/-- replacing every `key` entry by a strictly shorter value makes the body strictly shorter -/
theorem encodeBody_map_gt (key : Bytes) (val : Val) (hk : (keyFmt key).isSome = true)
    (kvs : List (Bytes × Val))
    (h : ∀ kv ∈ kvs, kv.1 = key → (encVal val).length < (encVal kv.2).length) :
    (encodeBody (kvs.map (upd key val))).length ≤ (encodeBody kvs).length ∧
    (kvs.any (·.1 == key) = true →
      (encodeBody (kvs.map (upd key val))).length < (encodeBody kvs).length) := by
  induction kvs with
  | nil => simp
  | cons kv kvs ih =>
    obtain ⟨k, v⟩ := kv
    obtain ⟨ih1, ih2⟩ := ih (fun x hx => h x (by simp [hx]))
    by_cases hkk : k = key
    · subst hkk
      have hlt := h (k, v) (by simp) rfl
      simp only at hlt
      simp only [List.map_cons, upd, beq_self_eq_true, if_true, encodeBody, hk, encodeKey,
        List.length_append, encStr_length, List.any_cons, Bool.true_or, true_implies]
      omega
    · have hne : (k == key) = false := by simpa using hkk
      simp only [List.map_cons, upd, hne, encodeBody, List.length_append, List.any_cons,
        Bool.false_or, Bool.false_eq_true, if_false]
      refine ⟨by omega, fun ha => ?_⟩
      have := ih2 ha
      omega

/-- The length check of `editHeader` forces the new value to be well-formed: a value that
    is not well-formed (a "double" that is not 8 bytes, a string of ≥ 2³² bytes) necessarily
    changes the header length, whatever the multiplicity of `key` in the old header. -/
theorem wf_of_same_length (kvs : List (Bytes × Val)) (hwf : ∀ kv ∈ kvs, EntryWF kv)
    (key : Bytes) (val : Val) (hk : keyFmt key = some val.fmt) (h0 : val.WF0)
    (hlen : (encodeHeader (update kvs key val)).length = (encodeHeader kvs).length) :
    val.WF := by
  have hks : (keyFmt key).isSome = true := by simp [hk]
  rw [update_eq] at hlen
  simp only [encodeHeader, List.length_append, encStr_length] at hlen
  by_cases hany : kvs.any (·.1 == key) = true
  · rw [if_pos hany] at hlen
    -- every old `key` entry has the same format as `val`
    have hfmt : ∀ kv ∈ kvs, kv.1 = key → kv.2.fmt = val.fmt ∧ kv.2.WF := by
      intro kv hkv hkey
      have := hwf kv hkv
      refine ⟨?_, this.2.1⟩
      have h1 := this.1
      rw [hkey, hk] at h1
      exact (Option.some.inj h1).symm
    cases val with
    | u32 n => exact h0
    | i8 b => trivial
    | f64 bs =>
      show bs.length = 8
      have hold : ∀ kv ∈ kvs, kv.1 = key → (encVal kv.2).length = 8 := by
        intro kv hkv hkey
        obtain ⟨hf, hw⟩ := hfmt kv hkv hkey
        obtain ⟨k, v⟩ := kv
        cases v <;> simp [Val.fmt] at hf
        exact hw
      rcases Nat.lt_trichotomy bs.length 8 with hlt | heq | hgt
      · have := (encodeBody_map_gt key (.f64 bs) hks kvs (fun kv hkv hkey => by
          rw [hold kv hkv hkey]; simpa [encVal] using hlt)).2 hany
        omega
      · exact heq
      · have := (encodeBody_map_lt key (.f64 bs) hks kvs (fun kv hkv hkey => by
          rw [hold kv hkv hkey]; simpa [encVal] using hgt)).2 hany
        omega
    | str s =>
      show s.length < 2 ^ 32
      have hold : ∀ kv ∈ kvs, kv.1 = key → (encVal kv.2).length < 4 + 2 ^ 32 := by
        intro kv hkv hkey
        obtain ⟨hf, hw⟩ := hfmt kv hkv hkey
        obtain ⟨k, v⟩ := kv
        cases v <;> simp [Val.fmt] at hf
        rename_i s'
        have : s'.length < 2 ^ 32 := hw
        simp only [encVal, encStr_length]
        omega
      apply Nat.lt_of_not_le
      intro hge
      have e : (encVal (.str s)).length = 4 + s.length := by simp [encVal]
      have := (encodeBody_map_lt key (.str s) hks kvs (fun kv hkv hkey => by
          have := hold kv hkv hkey
          rw [e]
          omega)).2 hany
      omega
  · rw [if_neg hany, encodeBody_append] at hlen
    simp only [encodeBody, hks, if_true, encodeKey, List.length_append, encStr_length,
      List.append_nil] at hlen
    omega

/-- everything `editHeader` did when it returned `.ok` -/
theorem editHeader_ok_inv {file key : Bytes} {v : EditVal} {file' : Bytes}
    (h : editHeader file key v = .ok file') :
    ∃ kvs n val, parseHeader file = .ok (kvs, n) ∧ keyFmt key = some val.fmt ∧ val.WF0 ∧
      (encodeHeader (update kvs key val)).length = n ∧
      file' = encodeHeader (update kvs key val) ++ file.drop n := by
  unfold editHeader at h
  split at h
  · cases h
  · rename_i f hf
    split at h
    · cases h
    · rename_i kvs n hp
      simp only at h
      split at h
      · cases h
      · rename_i v' hv'
        split at h
        · cases h
        · rename_i val hc
          split at h
          · rename_i hlen
            cases h
            obtain ⟨hfm, h0⟩ := coerce_ok hc
            exact ⟨kvs, n, val, hp, by rw [hfm]; exact hf, h0, hlen, rfl⟩
          · cases h

theorem map_upd_filter_other (kvs : List (Bytes × Val)) (k k' : Bytes) (v : Val) (hne : k' ≠ k) :
    (kvs.map (upd k v)).filter (·.1 == k') = kvs.filter (·.1 == k') := by
  have hkk : (k == k') = false := by simpa using fun h => hne h.symm
  induction kvs with
  | nil => rfl
  | cons kv kvs ih =>
    obtain ⟨a, b⟩ := kv
    by_cases hak : a = k
    · subst hak
      simp [upd, hkk, ih]
    · have : (a == k) = false := by simpa using hak
      simp [upd, List.filter_cons, this, ih]

theorem update_filter_other (kvs : List (Bytes × Val)) (k k' : Bytes) (v : Val) (hne : k' ≠ k) :
    (update kvs k v).filter (·.1 == k') = kvs.filter (·.1 == k') := by
  have hkk : (k == k') = false := by simpa using fun h => hne h.symm
  rw [update_eq]
  split
  · exact map_upd_filter_other kvs k k' v hne
  · simp [List.filter_append, hkk]

/-! ### id tables -/

theorem nameOf_unknown (table : List (String × Nat)) (dflt : String) (id : Nat)
    (h : ∀ p ∈ table, p.2 ≠ id) : nameOf table dflt id = dflt := by
  have : table.find? (·.2 == id) = none := by
    rw [List.find?_eq_none]
    intro p hp
    simpa using h p hp
  simp [nameOf, this]

theorem idOf_unknown (table : List (String × Nat)) (name : String)
    (h : ∀ p ∈ table, p.1 ≠ name) : idOf table name = 0 := by
  have : table.find? (·.1 == name) = none := by
    rw [List.find?_eq_none]
    intro p hp
    simpa using h p hp
  simp [idOf, this]

/-! ### sexagesimal packing over ℚ (core `Rat`, `grind` for the linear arithmetic) -/

theorem floor_eq_of (x : Rat) (z : Int) (h1 : (z : Rat) ≤ x) (h2 : x < (z : Rat) + 1) :
    x.floor = z := by
  apply Int.le_antisymm
  · have : x.floor < z + 1 := Rat.floor_lt_iff.2 (by simpa [Rat.intCast_add] using h2)
    omega
  · exact Rat.le_floor_iff.2 h1

/-- `parse_radec` on a non-negative magnitude -/
def parseMag (a : Rat) : Nat × Nat × Rat :=
  let de := (a / 10000).floor
  let r := a - (de : Rat) * 10000
  let mi := (r / 100).floor
  (de.toNat, mi.toNat, r - (mi : Rat) * 100)

theorem parseRadec_eq (v : Rat) :
    parseRadec v = (decide (v < 0), parseMag (if v < 0 then -v else v)) := rfl

theorem parseMag_pack (d m : Nat) (s : Rat) (hm : m < 100) (hs0 : 0 ≤ s) (hs : s < 100) :
    parseMag ((d : Rat) * 10000 + (m : Rat) * 100 + s) = (d, m, s) := by
  have hm' : (m : Rat) ≤ 99 := by exact_mod_cast (by omega : m ≤ 99)
  have hm0 : (0 : Rat) ≤ m := by exact_mod_cast Nat.zero_le m
  have cd : ((d : Int) : Rat) = (d : Rat) := rfl
  have cm : ((m : Int) : Rat) = (m : Rat) := rfl
  have h1 : (((d : Rat) * 10000 + (m : Rat) * 100 + s) / 10000).floor = (d : Int) :=
    floor_eq_of _ _ (by grind) (by grind)
  have h2 : (((d : Rat) * 10000 + (m : Rat) * 100 + s - ((d : Int) : Rat) * 10000) / 100).floor
      = (m : Int) :=
    floor_eq_of _ _ (by grind) (by grind)
  simp only [parseMag, h1, h2, Int.toNat_natCast]
  refine congrArg _ (congrArg _ ?_)
  grind

/-! ### concrete data for the non-vacuity examples in `Props/C05.lean` -/

/-- a header with three keys of three different formats (`I`, `d`, `str`) -/
def exHdr : List (Bytes × Val) :=
  [(ascii "nbits", .u32 8), (ascii "foff", .f64 [0, 0, 0, 0, 0, 0, 224, 191]),
   (ascii "source_name", .str (ascii "J0437"))]

def exData : Bytes := [1, 2, 3, 250]

/-- 83 header bytes followed by 4 data bytes -/
def exFile : Bytes := encodeHeader exHdr ++ exData

end SppModel.Sigproc

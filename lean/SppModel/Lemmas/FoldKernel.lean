import SppModel.Lemmas.Loop
import SppModel.Lemmas.Fold
import Mathlib.Tactic.Ring
import Mathlib.Tactic.FieldSimp
import Mathlib.Tactic.Linarith
import Mathlib.Algebra.Order.Field.Rat
/-!
Helper lemmas for the `kernels.fold` specification (`Props/Kernels/Fold.lean`): loops over a PAIR of
arrays, double scatter-add loops, exchanging two `rsum`s, and the float floor divisions / `int()` of the
generated term as natural-number arithmetic.
-/
namespace SppModel.Loop

/-! ## loops whose state is a pair of independent components -/

/-- a loop over a pair whose body treats the two components independently is a pair of loops -/
theorem forRange_pair {α β : Type} (n : Nat) (a : α) (b : β) (f : Nat → α → α) (g : Nat → β → β) :
    forRange n (a, b) (fun i st => (f i st.1, g i st.2)) = (forRange n a f, forRange n b g) := by
  induction n with
  | zero => rfl
  | succ n ih => rw [forRange_succ, forRange_succ, forRange_succ, ih]

/-- double scatter-add: `for t in range(m): for c in range(C): a[p t c] += g t c` -/
theorem forRange_scatter_add2 (m C : Nat) (a : Nat → Rat) (p : Nat → Nat → Nat) (g : Nat → Nat → Rat) (j : Nat) :
    forRange m a (fun t a => forRange C a (fun c a => upd a (p t c) (a (p t c) + g t c))) j
      = a j + rsum m (fun t => rsum C (fun c => if p t c = j then g t c else 0)) := by
  induction m with
  | zero => simp
  | succ m ih =>
    rw [forRange_succ, forRange_scatter_add, ih, rsum_succ]; ring

/-- the pair form of the double scatter-add loop (`fold_ar`, `count_ar` of `kernels.fold`) -/
theorem forRange_scatter_pair2 (m C : Nat) (fa ca : Nat → Rat) (p : Nat → Nat → Nat) (g h : Nat → Nat → Rat) :
    forRange m (fa, ca) (fun t st => forRange C st (fun c st =>
        (upd st.1 (p t c) (st.1 (p t c) + g t c), upd st.2 (p t c) (st.2 (p t c) + h t c))))
      = (forRange m fa (fun t a => forRange C a (fun c a => upd a (p t c) (a (p t c) + g t c))),
         forRange m ca (fun t a => forRange C a (fun c a => upd a (p t c) (a (p t c) + h t c)))) := by
  have e : (fun (t : Nat) (st : (Nat → Rat) × (Nat → Rat)) => forRange C st (fun c st =>
        (upd st.1 (p t c) (st.1 (p t c) + g t c), upd st.2 (p t c) (st.2 (p t c) + h t c))))
      = (fun t st => (forRange C st.1 (fun c a => upd a (p t c) (a (p t c) + g t c)),
                      forRange C st.2 (fun c a => upd a (p t c) (a (p t c) + h t c)))) := by
    funext t st
    obtain ⟨x, y⟩ := st
    exact forRange_pair C x y (fun c a => upd a (p t c) (a (p t c) + g t c))
      (fun c a => upd a (p t c) (a (p t c) + h t c))
  rw [e]
  exact forRange_pair m fa ca (fun t a => forRange C a (fun c a => upd a (p t c) (a (p t c) + g t c)))
    (fun t a => forRange C a (fun c a => upd a (p t c) (a (p t c) + h t c)))

/-! ## `rsum` -/

theorem rsum_add (n : Nat) (f g : Nat → Rat) : rsum n (fun k => f k + g k) = rsum n f + rsum n g := by
  induction n with
  | zero => simp
  | succ n ih => rw [rsum_succ, rsum_succ, rsum_succ, ih]; ring

/-- exchanging the order of summation -/
theorem rsum_comm (N m : Nat) (F : Nat → Nat → Rat) :
    rsum N (fun j => rsum m (fun t => F j t)) = rsum m (fun t => rsum N (fun j => F j t)) := by
  induction N with
  | zero => simp [rsum_zero_fun]
  | succ N ih =>
    rw [rsum_succ, ih, ← rsum_add]
    apply rsum_congr
    intro t _
    rw [rsum_succ]

theorem rsum_const (n : Nat) (c : Rat) : rsum n (fun _ => c) = (n : Rat) * c := by
  induction n with
  | zero => simp
  | succ n ih => rw [rsum_succ, ih]; push_cast; ring

/-- summing the indicator of `p = j` over `j < N` -/
theorem rsum_indicator (N p : Nat) : rsum N (fun j => if p = j then (1 : Rat) else 0) = if p < N then 1 else 0 := by
  induction N with
  | zero => simp
  | succ N ih =>
    rw [rsum_succ, ih]
    by_cases h1 : p < N
    · have h2 : p < N + 1 := by omega
      have h3 : p ≠ N := by omega
      rw [if_pos h1, if_pos h2, if_neg h3, add_zero]
    · by_cases h3 : p = N
      · have h2 : p < N + 1 := by omega
        rw [if_neg h1, if_pos h2, if_pos h3, zero_add]
      · have h2 : ¬ p < N + 1 := by omega
        rw [if_neg h1, if_neg h2, if_neg h3, add_zero]

/-! ## float floor division and `int()` on natural-number data -/

/-- `Rat.floor` of a quotient of naturals is the natural-number quotient -/
theorem ratFloor_natDiv (a b : Nat) (hb : 0 < b) : ((a : Rat) / (b : Rat)).floor = ((a / b : Nat) : Int) := by
  have hb' : (0 : Rat) < (b : Rat) := by exact_mod_cast hb
  have h1 := Nat.div_add_mod a b
  have h2 := Nat.mod_lt a hb
  generalize a / b = q at h1 ⊢
  generalize a % b = r at h1 h2
  have e : (a : Rat) = (b : Rat) * (q : Rat) + (r : Rat) := by exact_mod_cast h1.symm
  have h3 : (r : Rat) < (b : Rat) := by exact_mod_cast h2
  have h4 : (0 : Rat) ≤ (r : Rat) := by exact_mod_cast Nat.zero_le _
  apply Fold.ratFloor_eq
  · rw [le_div_iff₀ hb', e]; push_cast; nlinarith
  · rw [div_lt_iff₀ hb', e]; push_cast; nlinarith

/-- `a // (b / c)` on floats holding naturals is `a*c / b` -/
theorem floorDivQ_nat (a b c : Nat) (hb : 0 < b) (hc : 0 < c) :
    floorDivQ ((a : Nat) : Rat) (((b : Nat) : Rat) / ((c : Nat) : Rat)) = (((a * c / b : Nat) : Nat) : Rat) := by
  unfold floorDivQ
  have hb' : (b : Rat) ≠ 0 := by exact_mod_cast hb.ne'
  have hc' : (c : Rat) ≠ 0 := by exact_mod_cast hc.ne'
  have e : (a : Rat) / ((b : Rat) / (c : Rat)) = ((a * c : Nat) : Rat) / (b : Rat) := by
    push_cast; field_simp
  rw [e, ratFloor_natDiv _ _ hb]
  rfl

/-- `int()` of a non-negative float is its floor -/
theorem pyInt_of_nonneg (q : Rat) (h : 0 ≤ q) : pyInt q = q.floor := by
  unfold pyInt; rw [if_pos h]

/-- `int()` of a float holding a natural number -/
theorem pyInt_natCast (k : Nat) : pyInt ((k : Nat) : Rat) = (k : Int) := by
  rw [pyInt_of_nonneg _ (by exact_mod_cast Nat.zero_le k)]
  apply Fold.ratFloor_eq
  · push_cast; exact le_refl _
  · push_cast; linarith

end SppModel.Loop

import SppModel.Generated.SeekArith
import SppModel.Lemmas.Stream
/-! Helper lemmas for the `SeekArith` source tie (core Lean only): the stream description
    (`SeekEnv.cumsum`, `SeekEnv.total`, `SeekEnv.hdr`, `firstGt`) of a file list is the
    `Stream.cum` / `Stream.total` / `Stream.hdrlen` / `Stream.locate` of the hand model.
    Nothing here mentions the translated methods, only the fixed prelude of the generated file. -/
namespace SppModel.SeekArith
open SppModel SppModel.Generated.SeekArith

variable {α : Type}

/-- the stream description of a file list (definitionally `Tie.seekEnv`) -/
def envOf (fs : Stream.Files α) : SeekEnv := ⟨fs.map (·.hdr.length), fs.map (·.data.length)⟩

theorem total_envOf (fs : Stream.Files α) : (envOf fs).total = (Stream.total fs : Int) := by
  simp [SeekEnv.total, envOf, Stream.total, Stream.cum]

theorem nfiles_envOf (fs : Stream.Files α) : (envOf fs).nfiles = (fs.length : Int) := by
  simp [SeekEnv.nfiles, envOf]

theorem hdr_envOf (fs : Stream.Files α) (i : Int) :
    (envOf fs).hdr i = (Stream.hdrlen fs i.toNat : Int) := by
  simp [SeekEnv.hdr, envOf, Stream.hdrlen, List.getD_eq_getElem?_getD]

theorem hdr_envOf_nat (fs : Stream.Files α) (i : Nat) :
    (envOf fs).hdr (i : Int) = (Stream.hdrlen fs i : Int) := by
  rw [hdr_envOf, Int.toNat_natCast]

theorem cumsum_envOf (fs : Stream.Files α) :
    (envOf fs).cumsum = (List.range fs.length).map (fun i => (Stream.cum fs (i + 1) : Int)) := by
  simp [SeekEnv.cumsum, envOf, Stream.cum, List.map_take]

theorem cumsum_length (fs : Stream.Files α) : (envOf fs).cumsum.length = fs.length := by
  simp [cumsum_envOf]

theorem cumsum_getElem (fs : Stream.Files α) (k : Nat) (h : k < (envOf fs).cumsum.length) :
    (envOf fs).cumsum[k] = (Stream.cum fs (k + 1) : Int) := by
  simp [cumsum_envOf]

/-- `cumsum_datalens[k]` is the number of data bytes before file `k+1` -/
theorem cumsum_getD (fs : Stream.Files α) (k : Nat) (h : k < fs.length) :
    (envOf fs).cumsum.getD k 0 = (Stream.cum fs (k + 1) : Int) := by
  have h' : k < (envOf fs).cumsum.length := by rw [cumsum_length]; exact h
  rw [List.getD_eq_getElem?_getD, List.getElem?_eq_getElem h', Option.getD_some, cumsum_getElem]

/-- the form in which the translated code indexes: `cumsum_datalens[i - 1]` for an `Int` index `i ≥ 1` -/
theorem cumsum_getD_pred (fs : Stream.Files α) (i : Int) (h0 : 0 < i) (h1 : i ≤ (fs.length : Int)) :
    (envOf fs).cumsum.getD (i - 1).toNat 0 = (Stream.cum fs i.toNat : Int) := by
  have h : (i - 1).toNat < fs.length := by omega
  rw [cumsum_getD fs _ h]
  have : (i - 1).toNat + 1 = i.toNat := by omega
  rw [this]

theorem cum_mono (fs : Stream.Files α) {i j : Nat} (h : i ≤ j) : Stream.cum fs i ≤ Stream.cum fs j := by
  induction fs generalizing i j with
  | nil => simp
  | cons f fs ih =>
    cases i with
    | zero => simp
    | succ i =>
      cases j with
      | zero => omega
      | succ j =>
        rw [Stream.cum_cons_succ, Stream.cum_cons_succ]
        have := ih (i := i) (j := j) (by omega)
        omega

/-- `firstGt` on the cumulative data lengths picks the file whose byte range contains `o` -/
theorem firstGt_of_bracket (fs : Stream.Files α) (o : Int) (j : Nat) (hj : j < fs.length)
    (hlo : (Stream.cum fs j : Int) ≤ o) (hhi : o < (Stream.cum fs (j + 1) : Int)) :
    firstGt o (envOf fs).cumsum = .ok (j : Int) := by
  have hj' : j < (envOf fs).cumsum.length := by rw [cumsum_length]; exact hj
  have hf : (envOf fs).cumsum.findIdx? (fun x => decide (o < x)) = some j := by
    rw [List.findIdx?_eq_some_iff_getElem]
    refine ⟨hj', ?_, ?_⟩
    · rw [cumsum_getElem]; exact decide_eq_true hhi
    · intro k hk
      have hk' : k < (envOf fs).cumsum.length := by omega
      rw [cumsum_getElem fs k hk']
      have := cum_mono fs (i := k + 1) (j := j) (by omega)
      simp only [decide_eq_true_eq]
      omega
  simp only [firstGt, hf]

/-- Key lemma: for an in-range offset the model's `locate` and the source's `np.where(offset < cumsum)[0][0]`
    select the same file `j`, and the in-file offset is `o - cumsum[j-1]` (`= o - cum fs j`). -/
theorem locate_firstGt (fs : Stream.Files α) (o : Int) (h0 : 0 ≤ o) (h1 : o < (Stream.total fs : Int)) :
    ∃ j r : Nat, j < fs.length ∧ Stream.locate fs 0 o.toNat = some (j, r) ∧
      firstGt o (envOf fs).cumsum = .ok (j : Int) ∧ (r : Int) = o - (Stream.cum fs j : Int) := by
  obtain ⟨j, r, hj, hloc, hr, hc⟩ := Stream.locate_spec fs 0 o.toNat (by omega)
  have hcs := Stream.cum_succ fs j hj
  refine ⟨j, r, hj, ?_, ?_, by omega⟩
  · rw [hloc, Nat.zero_add]
  · exact firstGt_of_bracket fs o j hj (by omega) (by omega)

/-- an in-range offset always finds its file (no `IndexError`) -/
theorem firstGt_ne_error (fs : Stream.Files α) (o : Int) (h0 : 0 ≤ o) (h1 : o < (Stream.total fs : Int))
    (e : String) : firstGt o (envOf fs).cumsum ≠ .error e := by
  obtain ⟨j, r, _, _, h, _⟩ := locate_firstGt fs o h0 h1
  rw [h]; intro hh; cases hh

end SppModel.SeekArith

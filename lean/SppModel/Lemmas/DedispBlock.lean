import SppModel.Frozen.DedispBlock
import SppModel.Model.Dedisp
import SppModel.Model.RdbPrims
import Mathlib.Tactic.Common
/-!
Helper lemmas for the source tie of `FilReader.read_dedisp_block` (`Props/Tie/DedispBlock.lean`): bounds of the
`min`/`max` folds, the guard of the translated loop, one `scatter` step on the closed form of the block, the loop
invariant of `forRangeI`, and the final closed form as `drop`/`take` windows.
-/
namespace SppModel.Rdb

theorem getD_eq_getElem' {α : Type} (l : List α) (d : α) (c : Nat) (h : c < l.length) : l.getD c d = l[c] := by
  simp only [List.getD_eq_getElem?_getD, List.getElem?_eq_getElem h, Option.getD_some]

theorem getD_mem' {α : Type} (l : List α) (d : α) (c : Nat) (h : c < l.length) : l.getD c d ∈ l := by
  rw [getD_eq_getElem' l d c h]; exact List.getElem_mem _

/-! ### folds of `min` / `max` -/

theorem foldl_min_le_init (v : List Int) (a : Int) : v.foldl min a ≤ a := by
  induction v generalizing a with
  | nil => exact Int.le_refl _
  | cons b v ih => exact Int.le_trans (ih (min a b)) (Int.min_le_left a b)

theorem foldl_min_le_mem (v : List Int) (a : Int) : ∀ m ∈ v, v.foldl min a ≤ m := by
  induction v generalizing a with
  | nil => intro m hm; cases hm
  | cons b v ih =>
    intro m hm
    rw [List.mem_cons] at hm
    rcases hm with rfl | hm
    · exact Int.le_trans (foldl_min_le_init v (min a m)) (Int.min_le_right a m)
    · exact ih (min a b) m hm

theorem le_foldl_min (v : List Int) (a lo : Int) (ha : lo ≤ a) (hv : ∀ m ∈ v, lo ≤ m) : lo ≤ v.foldl min a := by
  induction v generalizing a with
  | nil => exact ha
  | cons b v ih =>
    exact ih (min a b) (Int.le_min.mpr ⟨ha, hv b (List.mem_cons_self)⟩)
      (fun m hm => hv m (List.mem_cons_of_mem _ hm))

theorem init_le_foldl_max (v : List Int) (a : Int) : a ≤ v.foldl max a := by
  induction v generalizing a with
  | nil => exact Int.le_refl _
  | cons b v ih => exact Int.le_trans (Int.le_max_left a b) (ih (max a b))

theorem mem_le_foldl_max (v : List Int) (a : Int) : ∀ m ∈ v, m ≤ v.foldl max a := by
  induction v generalizing a with
  | nil => intro m hm; cases hm
  | cons b v ih =>
    intro m hm
    rw [List.mem_cons] at hm
    rcases hm with rfl | hm
    · exact Int.le_trans (Int.le_max_right a m) (init_le_foldl_max v (max a m))
    · exact ih (max a b) m hm

theorem minI_le (v : List Int) : ∀ m ∈ v, minI v ≤ m := foldl_min_le_mem v _

theorem le_maxI (v : List Int) : ∀ m ∈ v, m ≤ maxI v := mem_le_foldl_max v _

theorem le_minI (v : List Int) (lo : Int) (hne : v ≠ []) (hv : ∀ m ∈ v, lo ≤ m) : lo ≤ minI v := by
  unfold minI
  apply le_foldl_min _ _ _ _ hv
  cases v with
  | nil => exact absurd rfl hne
  | cons b v => exact hv b (List.mem_cons_self)

/-! ### the guard -/

theorem guard_iff (delays : List Int) (start nsamps : Int) (N : Nat) :
    (anyLt (addSV start delays) 0 = true ∨ anyGt (addVS (addSV start delays) nsamps) (N : Int) = true) ↔
      delays.any (fun d => decide (start + d < 0 ∨ start + d + nsamps > (N : Int))) = true := by
  unfold anyLt anyGt addVS addSV
  simp only [List.any_eq_true, List.mem_map, decide_eq_true_eq, List.map_map]
  constructor
  · rintro (⟨m, ⟨d, hd, rfl⟩, h⟩ | ⟨m, ⟨d, hd, rfl⟩, h⟩)
    · exact ⟨d, hd, Or.inl h⟩
    · exact ⟨d, hd, Or.inr h⟩
  · rintro ⟨d, hd, h | h⟩
    · exact Or.inl ⟨_, ⟨d, hd, rfl⟩, h⟩
    · exact Or.inr ⟨_, ⟨d, hd, rfl⟩, h⟩

/-! ### the block in closed form after `k` iterations -/

/-- rows `c < C`, columns `j < n`: the sample `mins[c] + j` of channel `c` once the reader has passed it -/
def blockAt (x : Nat → List Int) (C n : Nat) (mins : List Int) (upto : Int) : List (List Int) :=
  (List.range C).map (fun c => (List.range n).map (fun (j : Nat) =>
    if mins.getD c 0 + (j : Int) < upto then (x (mins.getD c 0 + (j : Int)).toNat).getD c 0 else 0))

theorem blockAt_length (x : Nat → List Int) (C n : Nat) (mins : List Int) (upto : Int) :
    (blockAt x C n mins upto).length = C := by
  unfold blockAt; rw [List.length_map, List.length_range]

theorem zeros_eq_blockAt (x : Nat → List Int) (C n : Nat) (mins : List Int) (first : Int)
    (hfirst : ∀ m ∈ mins, first ≤ m) (hlen : mins.length = C) :
    zeros C n = blockAt x C n mins first := by
  unfold zeros blockAt
  apply List.ext_getElem
  · simp only [List.length_replicate, List.length_map, List.length_range]
  · intro c h1 h2
    simp only [List.length_replicate] at h1
    simp only [List.getElem_replicate, List.getElem_map, List.getElem_range]
    apply List.ext_getElem
    · simp only [List.length_replicate, List.length_map, List.length_range]
    · intro j h3 h4
      simp only [List.getElem_replicate, List.getElem_map, List.getElem_range]
      have hm : first ≤ mins.getD c 0 := by
        apply hfirst
        rw [getD_eq_getElem' _ _ _ (by omega)]
        exact List.getElem_mem _
      rw [if_neg (by omega)]

theorem mask_getD (mins : List Int) (ns t : Int) (c : Nat) (hc : c < mins.length) :
    (land (gtS (addVS mins ns) t) (leS mins t)).getD c false =
      (decide (mins.getD c 0 + ns > t) && decide (mins.getD c 0 ≤ t)) := by
  unfold land gtS leS addVS
  simp only [List.getD_eq_getElem?_getD, List.getElem?_zipWith, List.getElem?_map, List.getElem?_eq_getElem hc,
    Option.map_some, Option.getD_some]

theorem idx_getD (mins : List Int) (t : Int) (c : Nat) (hc : c < mins.length) :
    (subSV t mins).getD c 0 = t - mins.getD c 0 := by
  unfold subSV
  simp only [List.getD_eq_getElem?_getD, List.getElem?_map, List.getElem?_eq_getElem hc,
    Option.map_some, Option.getD_some]

theorem scatter_step (x : Nat → List Int) (C n : Nat) (mins : List Int) (ns t : Int)
    (hlen : mins.length = C) (hn : ns.toNat = n) (_hns : 0 ≤ ns) (hmins : ∀ m ∈ mins, 0 ≤ m) :
    scatter (blockAt x C n mins t) (land (gtS (addVS mins ns) t) (leS mins t)) (subSV t mins) (x t.toNat) =
      blockAt x C n mins (t + 1) := by
  unfold scatter
  rw [blockAt_length]
  unfold blockAt
  apply List.map_congr_left
  intro c hc
  rw [List.mem_range] at hc
  have hc' : c < mins.length := by omega
  have hm : 0 ≤ mins.getD c 0 := by
    apply hmins
    rw [getD_eq_getElem' _ _ _ hc']
    exact List.getElem_mem _
  rw [mask_getD mins ns t c hc', idx_getD mins t c hc']
  have hrow : ((List.range C).map (fun c => (List.range n).map (fun (j : Nat) =>
      if mins.getD c 0 + (j : Int) < t then (x (mins.getD c 0 + (j : Int)).toNat).getD c 0 else 0))).getD c [] =
      (List.range n).map (fun (j : Nat) =>
        if mins.getD c 0 + (j : Int) < t then (x (mins.getD c 0 + (j : Int)).toNat).getD c 0 else 0) := by
    rw [getD_eq_getElem' _ _ _ (by rw [List.length_map, List.length_range]; exact hc)]
    rw [List.getElem_map, List.getElem_range]
  simp only [hrow]
  generalize mins.getD c 0 = m at hm ⊢
  apply List.ext_getElem
  · split
    · rw [List.length_set, List.length_map, List.length_map]
    · rw [List.length_map, List.length_map]
  · intro j h1 h2
    simp only [List.length_map, List.length_range] at h2
    split
    · rename_i hmask
      simp only [Bool.and_eq_true, decide_eq_true_eq] at hmask
      rw [List.getElem_set]
      simp only [List.getElem_map, List.getElem_range]
      by_cases hj : (t - m).toNat = j
      · rw [if_pos hj, if_pos (by omega)]
        have : (m + (j : Int)).toNat = t.toNat := by omega
        rw [this]
      · rw [if_neg hj]
        by_cases hlt : m + (j : Int) < t
        · rw [if_pos hlt, if_pos (by omega)]
        · rw [if_neg hlt, if_neg (by omega)]
    · rename_i hmask
      simp only [Bool.and_eq_true, decide_eq_true_eq, not_and_or] at hmask
      simp only [List.getElem_map, List.getElem_range]
      by_cases hlt : m + (j : Int) < t
      · rw [if_pos hlt, if_pos (by omega)]
      · rw [if_neg hlt, if_neg (by omega)]

/-- the loop invariant: after `k` iterations the block is `blockAt … (first + k)` and the reader is at `first + k` -/
theorem loop_invariant (x : Nat → List Int) (C n : Nat) (mins : List Int) (ns first : Int)
    (hlen : mins.length = C) (hn : ns.toNat = n) (hns : 0 ≤ ns) (hmins : ∀ m ∈ mins, 0 ≤ m) (k : Nat) :
    (List.range k).foldl (fun (st : List (List Int) × Int) (i : Nat) =>
        (scatter st.1 (land (gtS (addVS mins ns) (first + (i : Int))) (leS mins (first + (i : Int))))
            (subSV (first + (i : Int)) mins) (x st.2.toNat), st.2 + 1))
      (blockAt x C n mins first, first) =
      (blockAt x C n mins (first + (k : Int)), first + (k : Int)) := by
  induction k with
  | zero => simp only [List.range_zero, List.foldl_nil, Int.natCast_zero, Int.add_zero]
  | succ k ih =>
    rw [List.range_succ, List.foldl_append, ih]
    simp only [List.foldl_cons, List.foldl_nil]
    rw [scatter_step x C n mins ns (first + (k : Int)) hlen hn hns hmins]
    simp only [Int.natCast_succ, Int.add_assoc]

/-! ### the closed form once the reader has passed every window -/

theorem blockAt_final (stream : List (List Int)) (N n : Nat) (mins : List Int) (ns last : Int)
    (hlen : mins.length = stream.length) (hn : ns.toNat = n) (hns : 0 ≤ ns)
    (hrows : ∀ row ∈ stream, row.length = N)
    (hlo : ∀ m ∈ mins, 0 ≤ m) (hhi : ∀ m ∈ mins, m + ns ≤ (N : Int)) (hlast : ∀ m ∈ mins, m + ns ≤ last) :
    blockAt (fun t => stream.map (fun row => row.getD t 0)) stream.length n mins last =
      (List.range stream.length).map (fun c => ((stream.getD c []).drop (mins.getD c 0).toNat).take n) := by
  unfold blockAt
  apply List.map_congr_left
  intro c hc
  rw [List.mem_range] at hc
  have hc' : c < mins.length := by omega
  have hmem : mins.getD c 0 ∈ mins := by
    rw [getD_eq_getElem' _ _ _ hc']
    exact List.getElem_mem _
  have h0 := hlo _ hmem
  have h1 := hhi _ hmem
  have h2 := hlast _ hmem
  have hrow : (stream.getD c []).length = N := by
    apply hrows
    rw [getD_eq_getElem' _ _ _ hc]
    exact List.getElem_mem _
  have hx : ∀ t : Nat, (stream.map (fun row => row.getD t 0)).getD c 0 = (stream.getD c []).getD t 0 := by
    intro t
    simp only [List.getD_eq_getElem?_getD, List.getElem?_map, List.getElem?_eq_getElem hc, Option.map_some,
      Option.getD_some]
  generalize mins.getD c 0 = m at h0 h1 h2 ⊢
  generalize stream.getD c [] = row at hrow hx ⊢
  apply List.ext_getElem
  · rw [List.length_map, List.length_range, List.length_take, List.length_drop]
    omega
  · intro j h3 h4
    rw [List.length_map, List.length_range] at h3
    rw [List.getElem_map, List.getElem_range, List.getElem_take, List.getElem_drop]
    rw [if_pos (by omega), hx]
    have : (m + (j : Int)).toNat = m.toNat + j := by omega
    rw [this, getD_eq_getElem' _ _ _ (by omega)]

end SppModel.Rdb

import SppModel.Lemmas.Loop
import SppModel.Model.Transform
import SppModel.Model.Filters
/-!
Shared definitions for linking the generated loop kernels to the hand models: the flat data of one
`read_plan` block as a functional array.
-/
namespace SppModel.KernelSpecs
open SppModel SppModel.Loop

/-- the flat `(nsamps_r × nchans)` data of block `b` as handed to a kernel: element `k` is stream element
    `b.off * C + k` -/
def blockData (flat : List Int) (C : Nat) (b : Plan.Blk) : Nat → Rat :=
  fun k => ((flat.getD (b.off * C + k) 0 : Int) : Rat)


/-! ### helper lemmas for the link theorems, group A -/
namespace LinkA
/-- the `Int → Rat` cast goes through a list sum -/
theorem cast_list_sum (l : List Int) : ((l.sum : Int) : Rat) = (l.map (fun (x : Int) => (x : Rat))).sum := by
  induction l with
  | nil => simp
  | cons a l ih => simp only [List.sum_cons, List.map_cons]; push_cast; rw [ih]

theorem rsum_eq_map_sum (n : Nat) (f : Nat → Rat) : rsum n f = ((List.range n).map f).sum := rfl

/-- cast of an integer sum over `range n` as an `rsum` -/
theorem cast_range_sum (n : Nat) (f : Nat → Int) :
    ((((List.range n).map f).sum : Int) : Rat) = rsum n (fun k => ((f k : Int) : Rat)) := by
  rw [cast_list_sum, List.map_map]; rfl

/-- element `C*t + c` of block `b`'s data is stream sample `b.off + t`, channel `c` -/
theorem blockData_getS (flat : List Int) (C : Nat) (b : Plan.Blk) (t c : Nat) :
    blockData flat C b (C * t + c) = ((Reduce.getS flat C (b.off + t) c : Int) : Rat) := by
  unfold blockData Reduce.getS
  have e : b.off * C + (C * t + c) = (b.off + t) * C + c := by ring
  rw [e]
end LinkA

/-! ### helper lemmas for the link theorems, group B -/
namespace LinkB
/-! ### general lemmas used by the link theorems -/

theorem cast_list_sum (l : List Int) : ((l.sum : Int) : Rat) = (l.map (fun (x : Int) => (x : Rat))).sum := by
  induction l with
  | nil => simp
  | cons a l ih => simp [List.sum_cons, Int.cast_add, ih]

theorem rsum_eq_map_sum (n : Nat) (f : Nat → Rat) : rsum n f = ((List.range n).map f).sum := rfl

/-- `getD` of a list built by `map` over `range` -/
theorem getD_map_range {α : Type} (n : Nat) (f : Nat → α) (i : Nat) (d : α) (h : i < n) :
    ((List.range n).map f).getD i d = f i := by
  simp [List.getD_eq_getElem?_getD, List.getElem?_map, List.getElem?_range h]

theorem getD_reverse {α : Type} (l : List α) (i : Nat) (d : α) (h : i < l.length) :
    l.reverse.getD i d = l.getD (l.length - 1 - i) d := by
  simp [List.getD_eq_getElem?_getD, List.getElem?_reverse h]

@[simp] theorem row_length (flat : List Int) (C t : Nat) : (Transform.row flat C t).length = C := by
  simp [Transform.row]

theorem row_getD (flat : List Int) (C t c : Nat) (hc : c < C) :
    (Transform.row flat C t).getD c 0 = Reduce.getS flat C t c := by
  unfold Transform.row
  exact getD_map_range C _ c 0 hc

/-- cell `(t, c)` of the block is stream cell `(b.off + t, c)` -/
theorem blockData_cell (flat : List Int) (C : Nat) (b : Plan.Blk) (t c : Nat) :
    blockData flat C b (C * t + c) = ((Reduce.getS flat C (b.off + t) c : Int) : Rat) := by
  unfold blockData Reduce.getS
  have e : b.off * C + (C * t + c) = (b.off + t) * C + c := by
    rw [Nat.add_mul, Nat.mul_comm C t, Nat.add_assoc]
  rw [e]

/-- quotient and remainder of a cell index -/
theorem cell_div (C t c : Nat) (hc : c < C) : (C * t + c) / C = t := by
  rw [Nat.mul_add_div (by omega), Nat.div_eq_of_lt hc]; rfl

theorem cell_mod (C t c : Nat) (hc : c < C) : (C * t + c) % C = c := by
  rw [Nat.mul_add_mod, Nat.mod_eq_of_lt hc]

/-- the rational row sum of a stream row as an `rsum` -/
theorem row_cast_sum (flat : List Int) (C t : Nat) :
    ((Transform.row flat C t).map (fun (x : Int) => (x : Rat))).sum
      = rsum C (fun c => ((Reduce.getS flat C t c : Int) : Rat)) := by
  unfold Transform.row rsum
  rw [List.map_map]; rfl
end LinkB

/-! ### helper lemmas for the link theorems, group C -/
namespace LinkC
/-! ### general lemmas for the link theorems -/

theorem rsum_eq_map_sum (n : Nat) (f : Nat → Rat) : rsum n f = ((List.range n).map f).sum := rfl

theorem cast_list_sum (l : List Int) : ((l.sum : Int) : Rat) = (l.map (fun (x : Int) => ((x : Int) : Rat))).sum := by
  induction l with
  | nil => simp
  | cons a l ih => rw [List.sum_cons, List.map_cons, List.sum_cons, Int.cast_add, ih]

/-- the cast of an integer `range` sum is the `rsum` of the casts -/
theorem cast_range_sum (n : Nat) (f : Nat → Int) :
    ((((List.range n).map f).sum : Int) : Rat) = rsum n (fun k => ((f k : Int) : Rat)) := by
  rw [cast_list_sum, List.map_map]
  rfl

theorem getD_map_range {α : Type} (n : Nat) (f : Nat → α) (i : Nat) (d : α) (h : i < n) :
    ((List.range n).map f).getD i d = f i := by
  simp [List.getD, h]

/-- a row-major nested `range` enumeration is the flat `range` enumeration with `k / N`, `k % N` -/
theorem flatMap_range_grid {α : Type} (M N : Nat) (g : Nat → Nat → α) :
    (List.range M).flatMap (fun i => (List.range N).map (fun j => g i j))
      = (List.range (M * N)).map (fun k => g (k / N) (k % N)) := by
  induction M with
  | zero => simp
  | succ M ih =>
    rw [List.range_succ, List.flatMap_append, ih, Nat.succ_mul, List.range_add, List.map_append]
    congr 1
    rw [List.flatMap_singleton, List.map_map]
    apply List.map_congr_left
    intro j hj
    have hj : j < N := List.mem_range.1 hj
    have hN : 0 < N := by omega
    show g M j = g ((M * N + j) / N) ((M * N + j) % N)
    rw [Nat.mul_comm M N, Nat.mul_add_div hN, Nat.mul_add_mod, Nat.div_eq_of_lt hj, Nat.mod_eq_of_lt hj]
    rfl
end LinkC

end SppModel.KernelSpecs

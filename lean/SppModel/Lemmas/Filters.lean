import SppModel.Model.Filters
import Mathlib.Tactic.Ring
import Mathlib.Tactic.FieldSimp
import Mathlib.Tactic.Linarith
import Mathlib.Tactic.Positivity
import Mathlib.Tactic.LinearCombination
import Mathlib.Algebra.BigOperators.Group.List.Basic
import Mathlib.Algebra.Order.Field.Rat
/-! Helper lemmas for C14 (running filters, decimators, linear detrend). -/
namespace SppModel.Filters

/-! ### generic list facts -/

theorem getD_map_range {α : Type} (m : Nat) (g : Nat → α) (d : α) (i : Nat) (hi : i < m) :
    ((List.range m).map g).getD i d = g i := by
  simp [List.getD_eq_getElem?_getD, List.getElem?_map, List.getElem?_range hi]

theorem map_range_getD (x : List Rat) :
    (List.range x.length).map (fun i => x.getD i 0) = x := by
  apply List.ext_getElem
  · simp
  · intro i h1 h2
    simp [List.getD_eq_getElem?_getD, List.getElem?_eq_getElem h2]

theorem map_range_getD_off (x : List Rat) :
    (List.range x.length).map (fun i => x.getD (0 * x.length + i) 0) = x := by
  simpa using map_range_getD x

theorem sum_map_const_range (w : Nat) (c : Rat) :
    ((List.range w).map (fun _ => c)).sum = w * c := by
  induction w with
  | zero => simp
  | succ k ih => rw [List.range_succ, List.map_append, List.sum_append, ih]; simp; ring

/-! ### power sums over `range m` -/

theorem sum_range_id (m : Nat) :
    ((List.range m).map (fun (i : Nat) => (i : Rat))).sum = (m : Rat) * ((m : Rat) - 1) / 2 := by
  induction m with
  | zero => simp
  | succ k ih =>
    rw [List.range_succ, List.map_append, List.sum_append, ih]; simp; ring

theorem sum_range_sq (m : Nat) :
    ((List.range m).map (fun (i : Nat) => (i : Rat) * (i : Rat))).sum
      = (m : Rat) * ((m : Rat) - 1) * (2 * (m : Rat) - 1) / 6 := by
  induction m with
  | zero => simp
  | succ k ih =>
    rw [List.range_succ, List.map_append, List.sum_append, ih]; simp; ring

/-- residual of a line: plain sum -/
theorem sum_range_sub_line (m : Nat) (f : Nat → Rat) (s c : Rat) :
    ((List.range m).map (fun (i : Nat) => f i - (s * (i : Rat) + c))).sum
      = ((List.range m).map f).sum
        - (s * ((List.range m).map (fun (i : Nat) => (i : Rat))).sum + (m : Rat) * c) := by
  induction m with
  | zero => simp
  | succ k ih =>
    simp only [List.range_succ, List.map_append, List.sum_append, ih]; simp; ring

/-- residual of a line: first moment -/
theorem sum_range_mul_sub_line (m : Nat) (f : Nat → Rat) (s c : Rat) :
    ((List.range m).map (fun (i : Nat) => (i : Rat) * (f i - (s * (i : Rat) + c)))).sum
      = ((List.range m).map (fun (i : Nat) => (i : Rat) * f i)).sum
        - (s * ((List.range m).map (fun (i : Nat) => (i : Rat) * (i : Rat))).sum
           + c * ((List.range m).map (fun (i : Nat) => (i : Rat))).sum) := by
  induction m with
  | zero => simp
  | succ k ih =>
    simp only [List.range_succ, List.map_append, List.sum_append, ih]; simp; ring

theorem sum_range_line (m : Nat) (a b : Rat) :
    ((List.range m).map (fun (i : Nat) => a * (i : Rat) + b)).sum
      = a * ((m : Rat) * ((m : Rat) - 1) / 2) + (m : Rat) * b := by
  induction m with
  | zero => simp
  | succ k ih =>
    rw [List.range_succ, List.map_append, List.sum_append, ih]; simp; ring

theorem sum_range_mul_line (m : Nat) (a b : Rat) :
    ((List.range m).map (fun (i : Nat) => (i : Rat) * (a * (i : Rat) + b))).sum
      = a * ((m : Rat) * ((m : Rat) - 1) * (2 * (m : Rat) - 1) / 6)
        + b * ((m : Rat) * ((m : Rat) - 1) / 2) := by
  induction m with
  | zero => simp
  | succ k ih =>
    rw [List.range_succ, List.map_append, List.sum_append, ih]; simp; ring

/-- the least-squares denominator `m·Σi² − (Σi)² = m²(m²−1)/12` is nonzero for `m ≥ 2` -/
theorem lsq_den_ne (q : Rat) (hq : 2 ≤ q) :
    q * (q * (q - 1) * (2 * q - 1) / 6) - q * (q - 1) / 2 * (q * (q - 1) / 2) ≠ 0 := by
  have h : q * (q * (q - 1) * (2 * q - 1) / 6) - q * (q - 1) / 2 * (q * (q - 1) / 2)
      = q * q * (q - 1) * (q + 1) / 12 := by ring
  rw [h]
  have h1 : 0 < q := by linarith
  have h2 : 0 < q - 1 := by linarith
  have h3 : 0 < q + 1 := by linarith
  positivity

/-- second normal equation, pure algebra -/
theorem lsq_normal2 (q S1 S2 X Y : Rat) (hq : q ≠ 0) (hD : q * S2 - S1 * S1 ≠ 0) :
    X - ((q * X - S1 * Y) / (q * S2 - S1 * S1) * S2
          + (Y - (q * X - S1 * Y) / (q * S2 - S1 * S1) * S1) / q * S1) = 0 := by
  have hs : (q * X - S1 * Y) / (q * S2 - S1 * S1) * (q * S2 - S1 * S1) = q * X - S1 * Y :=
    div_mul_cancel₀ _ hD
  generalize (q * X - S1 * Y) / (q * S2 - S1 * S1) = s at hs ⊢
  field_simp
  linear_combination (-1 : Rat) * hs

/-! ### reflection -/

theorem refl_eq_of_lt (n : Nat) (i : Nat) (hi : i < n) : refl n (i : Int) = i := by
  have h : ((i : Int) % (2 * n : Int)) = i := Int.emod_eq_of_lt (by omega) (by omega)
  simp only [refl, h, Int.toNat_natCast]
  simp [hi]

end SppModel.Filters

import SppModel.Model.Dedisp
import SppModel.Lemmas.Meta
import Mathlib.Tactic.Ring
import Mathlib.Tactic.FieldSimp
import Mathlib.Tactic.Linarith
import Mathlib.Tactic.NormNum
import Mathlib.Tactic.Positivity
import Mathlib.Algebra.Order.Field.Rat
import Mathlib.Algebra.Order.Group.Unbundled.Int
import Mathlib.Data.List.Rotate
/-! Helper lemmas for C09: `roundHalfEven` is odd / monotone / nearest, `rollRow`
is a `List.rotate`, `maxI`/`minI` bounds, and the row forms of the block paths. -/
namespace SppModel.Dedisp
open SppModel SppModel.Meta

/-! ## `Rat.floor` and `roundHalfEven` -/

theorem ratFloor_le (q : ℚ) : ((q.floor : ℤ) : ℚ) ≤ q := Rat.le_floor_iff.mp (le_refl _)

theorem ratFloor_lt (q : ℚ) : q < ((q.floor : ℤ) : ℚ) + 1 := by
  have : q.floor < q.floor + 1 := by omega
  have := Rat.floor_lt_iff.mp this
  push_cast at this; exact this

theorem ratFloor_mono {a b : ℚ} (h : a ≤ b) : a.floor ≤ b.floor :=
  Rat.le_floor_iff.mpr (le_trans (ratFloor_le a) h)

/-- the integer-valued rounding: `roundHalfEven q` is the cast of `rheZ q` -/
def rheZ (q : ℚ) : ℤ :=
  if q - (q.floor : ℚ) < 1 / 2 then q.floor
  else if q - (q.floor : ℚ) > 1 / 2 then q.floor + 1
  else if q.floor % 2 = 0 then q.floor else q.floor + 1

theorem roundHalfEven_eq_rheZ (q : ℚ) : roundHalfEven q = (rheZ q : ℚ) := by
  unfold roundHalfEven rheZ
  simp only []
  split_ifs <;> rfl

/-- exact tie: `z + 1/2` goes to the even neighbour -/
theorem roundHalfEven_half (z : ℤ) :
    roundHalfEven ((z : ℚ) + 1 / 2) = if z % 2 = 0 then (z : ℚ) else ((z + 1 : ℤ) : ℚ) := by
  have hf : ((z : ℚ) + 1 / 2).floor = z := ratFloor_eq (by linarith) (by linarith)
  have h1 : ¬ ((z : ℚ) + 1 / 2 - ((z : ℤ) : ℚ) < 1 / 2) := by
    have : (z : ℚ) + 1 / 2 - ((z : ℤ) : ℚ) = 1 / 2 := by ring
    rw [this]; exact lt_irrefl _
  have h2 : ¬ ((z : ℚ) + 1 / 2 - ((z : ℤ) : ℚ) > 1 / 2) := by
    have : (z : ℚ) + 1 / 2 - ((z : ℤ) : ℚ) = 1 / 2 := by ring
    rw [this]; exact lt_irrefl _
  simp only [roundHalfEven, hf, h1, h2, if_false]

/-- every rational is within a half (strictly) of an integer, or is an exact tie -/
theorem near_or_half (q : ℚ) :
    (∃ z : ℤ, ∃ ε : ℚ, q = (z : ℚ) + ε ∧ -(1 / 2) < ε ∧ ε < 1 / 2) ∨ (∃ z : ℤ, q = (z : ℚ) + 1 / 2) := by
  have h1 := ratFloor_le q
  have h2 := ratFloor_lt q
  rcases lt_trichotomy (q - (q.floor : ℚ)) (1 / 2) with h | h | h
  · exact Or.inl ⟨q.floor, q - (q.floor : ℚ), by ring, by linarith, h⟩
  · exact Or.inr ⟨q.floor, by linarith⟩
  · refine Or.inl ⟨q.floor + 1, q - (q.floor : ℚ) - 1, by push_cast; ring, by linarith, by linarith⟩

theorem roundHalfEven_neg' (q : ℚ) : roundHalfEven (-q) = -roundHalfEven q := by
  rcases near_or_half q with ⟨z, ε, rfl, h1, h2⟩ | ⟨z, rfl⟩
  · have : -((z : ℚ) + ε) = ((-z : ℤ) : ℚ) + (-ε) := by push_cast; ring
    rw [this, roundHalfEven_near' (-z) (-ε) (by linarith) (by linarith), roundHalfEven_near' z ε h1 h2]
    push_cast; ring
  · have : -((z : ℚ) + 1 / 2) = ((-z - 1 : ℤ) : ℚ) + 1 / 2 := by push_cast; ring
    rw [this, roundHalfEven_half, roundHalfEven_half]
    by_cases hz : z % 2 = 0
    · have hz' : ¬ ((-z - 1) % 2 = 0) := by omega
      rw [if_pos hz, if_neg hz']; push_cast; ring
    · have hz' : (-z - 1) % 2 = 0 := by omega
      rw [if_neg hz, if_pos hz']; push_cast; ring

theorem rheZ_ge_floor (q : ℚ) : q.floor ≤ rheZ q := by
  unfold rheZ; split_ifs <;> omega

theorem rheZ_le_floor_succ (q : ℚ) : rheZ q ≤ q.floor + 1 := by
  unfold rheZ; split_ifs <;> omega

theorem rheZ_mono {a b : ℚ} (h : a ≤ b) : rheZ a ≤ rheZ b := by
  have hfl := ratFloor_mono h
  rcases lt_or_eq_of_le hfl with hlt | heq
  · have := rheZ_le_floor_succ a
    have := rheZ_ge_floor b
    omega
  · unfold rheZ
    rw [heq]
    have hab : a - (b.floor : ℚ) ≤ b - (b.floor : ℚ) := by linarith
    split_ifs <;> first | omega | (exfalso; linarith)

theorem roundHalfEven_mono' {a b : ℚ} (h : a ≤ b) : roundHalfEven a ≤ roundHalfEven b := by
  rw [roundHalfEven_eq_rheZ, roundHalfEven_eq_rheZ]
  exact_mod_cast rheZ_mono h

theorem roundHalfEven_close' (q : ℚ) : |roundHalfEven q - q| ≤ 1 / 2 := by
  rcases near_or_half q with ⟨z, ε, rfl, h1, h2⟩ | ⟨z, rfl⟩
  · rw [roundHalfEven_near' z ε h1 h2, abs_le]; constructor <;> linarith
  · rw [roundHalfEven_half]
    split_ifs
    · rw [abs_le]; constructor <;> linarith
    · rw [abs_le]; push_cast; constructor <;> linarith

theorem roundHalfEven_zero : roundHalfEven 0 = 0 := by
  have := roundHalfEven_intCast 0
  simpa using this

/-! ## delay law -/

theorem delayQ_mono_arg {dm f₁ f₂ fref tsamp : ℚ} (hdm : 0 ≤ dm) (ht : 0 < tsamp) (h1 : 0 < f₁)
    (h12 : f₁ ≤ f₂) :
    KDM * dm * (1 / (f₂ * f₂) - 1 / (fref * fref)) / tsamp
      ≤ KDM * dm * (1 / (f₁ * f₁) - 1 / (fref * fref)) / tsamp := by
  have hK : (0 : ℚ) ≤ KDM * dm := mul_nonneg (by unfold KDM; norm_num) hdm
  have hff : f₁ * f₁ ≤ f₂ * f₂ := mul_le_mul h12 h12 h1.le (le_trans h1.le h12)
  have hinv : 1 / (f₂ * f₂) ≤ 1 / (f₁ * f₁) := one_div_le_one_div_of_le (mul_pos h1 h1) hff
  apply div_le_div_of_nonneg_right _ ht.le
  apply mul_le_mul_of_nonneg_left _ hK
  linarith

/-! ## `Int.emod` helpers -/

theorem emod_unique {a n q r : ℤ} (h0 : 0 ≤ r) (h1 : r < n) (h : a = n * q + r) : a % n = r := by
  subst h
  rw [Int.add_comm, Int.add_mul_emod_self_left, Int.emod_eq_of_lt h0 h1]

/-- `(-d) mod n` for `n > 0` -/
theorem neg_emod_cases (d n : ℤ) (hn : 0 < n) :
    (d % n = 0 ∧ (-d) % n = 0) ∨ (0 < d % n ∧ (-d) % n = n - d % n) := by
  have h0 := Int.emod_nonneg d hn.ne'
  have h1 := Int.emod_lt_of_pos d hn
  have hd := Int.mul_ediv_add_emod d n
  rcases Int.lt_or_eq_of_le h0 with hpos | hz
  · right
    refine ⟨hpos, ?_⟩
    apply emod_unique (q := -(d / n) - 1) (by omega) (by omega)
    have : n * (-(d / n) - 1) = -(n * (d / n)) - n := by ring
    omega
  · left
    refine ⟨hz.symm, ?_⟩
    apply emod_unique (q := -(d / n)) (le_refl _) hn
    have : n * (-(d / n)) = -(n * (d / n)) := by ring
    omega

/-! ## `rollRow` is a rotation -/

theorem rollRow_eq_rotate (row : List Int) (s : Int) :
    rollRow row s = row.rotate (row.length - (s % (row.length : Int)).toNat) := by
  unfold rollRow
  simp only []
  split_ifs with h
  · rw [h, Nat.sub_zero, List.rotate_length]
  · rw [List.rotate_eq_drop_append_take (Nat.sub_le _ _)]

theorem rollRow_length' (row : List Int) (s : Int) : (rollRow row s).length = row.length := by
  rw [rollRow_eq_rotate, List.length_rotate]

theorem rollRow_nil (s : Int) : rollRow [] s = [] := by
  rw [rollRow_eq_rotate]; simp

/-- the source index of output sample `t` when rolling by `-d` -/
theorem roll_index (n t : Nat) (d : Int) (ht : t < n) :
    (t + (n - ((-d) % (n : Int)).toNat)) % n = (((t : Int) + d) % (n : Int)).toNat := by
  have hn : (0 : Int) < n := by omega
  have h0 := Int.emod_nonneg (-d) hn.ne'
  have h1 := Int.emod_lt_of_pos (-d) hn
  have hd := Int.mul_ediv_add_emod (-d) n
  have g0 := Int.emod_nonneg ((t : Int) + d) hn.ne'
  generalize hsh : (-d) % (n : Int) = sh at *
  obtain ⟨k, rfl⟩ : ∃ k : Nat, sh = k := ⟨sh.toNat, by omega⟩
  rw [Int.toNat_natCast]
  have hk : k < n := by omega
  suffices h : (((t + (n - k)) % n : Nat) : Int) = ((t : Int) + d) % (n : Int) by omega
  rw [Int.natCast_mod]
  push_cast [Nat.cast_sub hk.le]
  have e : (t : Int) + d = ((t : Int) + ((n : Int) - k)) + (n : Int) * (-((-d) / n) - 1) := by
    have : (n : Int) * (-((-d) / n) - 1) = -((n : Int) * ((-d) / n)) - n := by ring
    omega
  rw [e, Int.add_mul_emod_self_left]

theorem rollRow_get' (row : List Int) (d : Int) (t : Nat) (ht : t < row.length) :
    (rollRow row (-d))[t]? = row[(((t : Int) + d) % (row.length : Int)).toNat]? := by
  rw [rollRow_eq_rotate, List.getElem?_rotate ht, roll_index row.length t d ht]

theorem rollRow_inverse' (row : List Int) (d : Int) : rollRow (rollRow row (-d)) d = row := by
  rcases Nat.eq_zero_or_pos row.length with h0 | hpos
  · have : row = [] := List.eq_nil_of_length_eq_zero h0
    subst this; simp [rollRow_nil]
  · rw [rollRow_eq_rotate (rollRow row (-d)) d, rollRow_length', rollRow_eq_rotate row (-d),
      List.rotate_rotate, ← List.rotate_mod]
    have hn : (0 : Int) < row.length := by omega
    have g0 := Int.emod_nonneg d hn.ne'
    have g1 := Int.emod_lt_of_pos d hn
    have hmod : (row.length - ((-d) % (row.length : Int)).toNat
        + (row.length - (d % (row.length : Int)).toNat)) % row.length = 0 := by
      rcases neg_emod_cases d row.length hn with ⟨ha, hb⟩ | ⟨ha, hb⟩
      · rw [ha, hb]; simp
      · rw [hb]
        have : row.length - ((row.length : Int) - d % (row.length : Int)).toNat
            + (row.length - (d % (row.length : Int)).toNat) = row.length := by omega
        rw [this, Nat.mod_self]
    rw [hmod, List.rotate_zero]

/-! ## `maxI` / `minI` -/

theorem foldl_max_ge_init (xs : List Int) (a : Int) : a ≤ xs.foldl max a := by
  induction xs generalizing a with
  | nil => simp
  | cons x xs ih => simp only [List.foldl_cons]; have := ih (max a x); omega

theorem foldl_max_ge_mem (xs : List Int) (a x : Int) (hx : x ∈ xs) : x ≤ xs.foldl max a := by
  induction xs generalizing a with
  | nil => simp at hx
  | cons y ys ih =>
    simp only [List.foldl_cons]
    rcases List.mem_cons.mp hx with rfl | h
    · have := foldl_max_ge_init ys (max a x); omega
    · exact ih _ h

theorem foldl_max_eq_init (xs : List Int) (a : Int) (h : ∀ x ∈ xs, x ≤ a) : xs.foldl max a = a := by
  induction xs with
  | nil => simp
  | cons y ys ih =>
    simp only [List.foldl_cons]
    have hy : y ≤ a := h y (by simp)
    rw [show max a y = a by omega]
    exact ih (fun x hx => h x (by simp [hx]))

theorem foldl_min_map_neg (xs : List Int) (a : Int) :
    (xs.map (fun x => -x)).foldl min (-a) = -(xs.foldl max a) := by
  induction xs generalizing a with
  | nil => simp
  | cons y ys ih =>
    simp only [List.map_cons, List.foldl_cons]
    rw [show min (-a) (-y) = -(max a y) by omega]
    exact ih _

theorem maxI_nonneg (xs : List Int) : 0 ≤ maxI xs := foldl_max_ge_init xs 0

theorem le_maxI (xs : List Int) (x : Int) (hx : x ∈ xs) : x ≤ maxI xs := foldl_max_ge_mem xs 0 x hx

theorem minI_map_neg (xs : List Int) : minI (xs.map (fun x => -x)) = -maxI xs := by
  have := foldl_min_map_neg xs 0
  simpa [minI, maxI] using this

theorem maxI_map_neg_of_nonneg (xs : List Int) (h : ∀ x ∈ xs, 0 ≤ x) :
    maxI (xs.map (fun x => -x)) = 0 := by
  apply foldl_max_eq_init
  intro y hy
  obtain ⟨x, hx, rfl⟩ := List.mem_map.mp hy
  have := h x hx; omega

theorem getD_map_neg (d : List Int) (c : Nat) : (d.map (fun x => -x)).getD c 0 = -(d.getD c 0) := by
  simp only [List.getD_eq_getElem?_getD, List.getElem?_map]
  cases d[c]? <;> simp

theorem getD_mem_of_lt {α} (l : List α) (c : Nat) (a : α) (hc : c < l.length) : l.getD c a ∈ l := by
  simp [List.getD_eq_getElem?_getD, hc]

theorem getD_le_maxI (d : List Int) (c : Nat) : d.getD c 0 ≤ maxI d := by
  by_cases hc : c < d.length
  · exact le_maxI d _ (getD_mem_of_lt d c 0 hc)
  · have : d.getD c 0 = 0 := by simp [List.getD_eq_getElem?_getD, Nat.le_of_not_lt hc]
    rw [this]; exact maxI_nonneg d

theorem neg_getD_le_maxI_neg (d : List Int) (c : Nat) : -(d.getD c 0) ≤ maxI (d.map (fun x => -x)) := by
  rw [← getD_map_neg]; exact getD_le_maxI _ c

theorem getD_map_range {α} (f : Nat → α) (m c : Nat) (a : α) (hc : c < m) :
    ((List.range m).map f).getD c a = f c := by
  simp [List.getD_eq_getElem?_getD, hc]

theorem map_range_getD {α} (l : List α) (a : α) : (List.range l.length).map (fun c => l.getD c a) = l := by
  apply List.ext_getElem?
  intro i
  by_cases hi : i < l.length
  · simp [List.getD_eq_getElem?_getD, hi]
  · simp [Nat.le_of_not_lt hi]

/-! ## block paths, row form -/

theorem blockDedisperse_length (arr : List (List Int)) (d : List Int) :
    (blockDedisperse arr d).length = arr.length := by
  simp [blockDedisperse, rollBlock]

theorem blockDedisperse_row (arr : List (List Int)) (d : List Int) (c : Nat) (hc : c < arr.length) :
    (blockDedisperse arr d).getD c [] = rollRow (arr.getD c []) (-(d.getD c 0)) := by
  unfold blockDedisperse rollBlock
  rw [getD_map_range _ _ _ _ hc, getD_map_neg]

theorem blockDedisperse_eq (arr : List (List Int)) (d : List Int) :
    blockDedisperse arr d
      = (List.range arr.length).map (fun c => rollRow (arr.getD c []) (-(d.getD c 0))) := by
  unfold blockDedisperse rollBlock
  apply List.map_congr_left
  intro c _
  rw [getD_map_neg]

theorem blockDedisperse_inverse' (arr : List (List Int)) (d : List Int) :
    blockDedisperse (blockDedisperse arr d) (d.map (fun x => -x)) = arr := by
  rw [blockDedisperse_eq (blockDedisperse arr d), blockDedisperse_length]
  conv_rhs => rw [← map_range_getD arr []]
  apply List.map_congr_left
  intro c hc
  have hc' : c < arr.length := List.mem_range.mp hc
  rw [blockDedisperse_row arr d c hc', getD_map_neg, Int.neg_neg, rollRow_inverse']

/-- the successful valid-samples variant, row form -/
theorem blockDedisperseValid_ok (arr : List (List Int)) (d : List Int) (out : List (List Int))
    (h : blockDedisperseValid arr d = .ok out) :
    0 < ((arr.getD 0 []).length : Int) - maxI d - maxI (d.map (fun x => -x)) ∧
    out = (List.range arr.length).map (fun c =>
      ((arr.getD c []).drop (maxI (d.map (fun x => -x)) + d.getD c 0).toNat).take
        (((arr.getD 0 []).length : Int) - maxI d - maxI (d.map (fun x => -x))).toNat) := by
  unfold blockDedisperseValid rollBlockValid at h
  simp only [] at h
  rw [minI_map_neg] at h
  split at h
  · cases h
  · rename_i hpos
    injection h with h
    refine ⟨by omega, ?_⟩
    rw [← h]
    apply List.map_congr_left
    intro c _
    rw [getD_map_neg]
    congr 2
    omega

theorem getD_zero_length (arr : List (List Int)) (n : Nat) (hn : ∀ r ∈ arr, r.length = n) (hne : arr ≠ []) :
    (arr.getD 0 []).length = n :=
  hn _ (getD_mem_of_lt arr 0 [] (List.length_pos_iff.mpr hne))

/-- rolling by `-dc` with `0 ≤ dc < n` brings sample `dc` to the front -/
theorem rollRow_neg_of_lt (row : List Int) (dc : Int) (h0 : 0 ≤ dc) (h1 : dc < row.length) :
    rollRow row (-dc) = row.drop dc.toNat ++ row.take dc.toNat := by
  rw [rollRow_eq_rotate]
  rcases Int.lt_or_eq_of_le h0 with hpos | hz
  · have hm : (-dc) % (row.length : Int) = row.length - dc :=
      emod_unique (q := -1) (by omega) (by omega) (by ring)
    rw [hm, show row.length - ((row.length : Int) - dc).toNat = dc.toNat by omega]
    exact List.rotate_eq_drop_append_take (by omega)
  · subst hz
    simp

/-- the impulse position: the rolled index hits `t0 + d` exactly at `t = t0` -/
theorem pulse_index (n t t0 : Nat) (d : Int) (h0 : 0 ≤ (t0 : Int) + d) (h1 : (t0 : Int) + d < n)
    (ht0 : t0 < n) (ht : t < n) :
    (((((t : Int) + d) % (n : Int)).toNat : Nat) : Int) = (t0 : Int) + d ↔ t = t0 := by
  have hn : (0 : Int) < n := by omega
  have g0 := Int.emod_nonneg ((t : Int) + d) hn.ne'
  rw [Int.toNat_of_nonneg g0]
  constructor
  · intro h
    have hd := Int.mul_ediv_add_emod ((t : Int) + d) n
    rw [h] at hd
    have hdvd : (n : Int) ∣ (t : Int) - t0 := ⟨((t : Int) + d) / n, by omega⟩
    have habs : |(t : Int) - t0| < n := by rw [abs_lt]; constructor <;> omega
    have := Int.eq_zero_of_abs_lt_dvd hdvd habs
    omega
  · rintro rfl
    exact Int.emod_eq_of_lt h0 h1

theorem readDedisp_any (N : Nat) (d : List Int) (start nsamps : Int) (c : Nat) (hc : c < d.length)
    (hbad : start + d.getD c 0 < 0 ∨ start + d.getD c 0 + nsamps > N) :
    d.any (fun x => decide (start + x < 0 ∨ start + x + nsamps > (N : Int))) = true := by
  rw [List.any_eq_true]
  exact ⟨d.getD c 0, getD_mem_of_lt d c 0 hc, by simpa using hbad⟩

end SppModel.Dedisp

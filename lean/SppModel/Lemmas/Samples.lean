import SppModel.Model.Samples
import SppModel.Props.C03
import SppModel.Props.C05
/-! Helper lemmas for C04 (core Lean only): sample encoding at every depth. -/
namespace SppModel.Samples
open SppModel SppModel.Bits

/-- supported depths -/
def Depth (d : Nat) : Prop := d = 1 ∨ d = 2 ∨ d = 4 ∨ d = 8 ∨ d = 16 ∨ d = 32
/-- values representable at depth d (for d=32 the value is the 32-bit pattern) -/
def InRange (d : Nat) (ws : List Nat) : Prop := ∀ w ∈ ws, w < 2 ^ d
/-- whole bytes: for sub-byte depths the count is a multiple of 8/d -/
def WholeBytes (d : Nat) (ws : List Nat) : Prop := (ws.length * d) % 8 = 0

instance (d : Nat) : Decidable (Depth d) :=
  inferInstanceAs (Decidable (d = 1 ∨ d = 2 ∨ d = 4 ∨ d = 8 ∨ d = 16 ∨ d = 32))
instance (d : Nat) (ws : List Nat) : Decidable (InRange d ws) :=
  inferInstanceAs (Decidable (∀ w ∈ ws, w < 2 ^ d))
instance (d : Nat) (ws : List Nat) : Decidable (WholeBytes d ws) :=
  inferInstanceAs (Decidable ((ws.length * d) % 8 = 0))

theorem Depth.pos {d : Nat} (h : Depth d) : 0 < d := by
  rcases h with rfl | rfl | rfl | rfl | rfl | rfl <;> decide

theorem Depth.cases {d : Nat} (h : Depth d) : (d = 1 ∨ d = 2 ∨ d = 4) ∨ d = 8 ∨ d = 16 ∨ d = 32 := by
  unfold Depth at h; omega

/-! ### `chunks` -/

theorem chunks_length (k : Nat) (xs : List α) : (chunks k xs).length = xs.length / k := by
  fun_induction chunks k xs with
  | case1 xs h => subst h; simp
  | case2 xs hk hlt => rw [Nat.div_eq_of_lt hlt]; rfl
  | case3 xs hk hge ih =>
    simp only [List.length_cons, ih, List.length_drop]
    have h1 : k ≤ xs.length := by omega
    have h0 : 0 < k := by omega
    rw [Nat.div_eq_sub_div h0 h1]

theorem chunks_mem (k : Nat) (xs : List α) :
    ∀ v ∈ chunks k xs, v.length = k ∧ ∀ x ∈ v, x ∈ xs := by
  fun_induction chunks k xs with
  | case1 xs h => simp
  | case2 xs hk hlt => simp
  | case3 xs hk hge ih =>
    intro v hv
    rcases List.mem_cons.mp hv with rfl | hv
    · refine ⟨by simp; omega, fun x hx => List.mem_of_mem_take hx⟩
    · obtain ⟨h1, h2⟩ := ih v hv
      exact ⟨h1, fun x hx => List.mem_of_mem_drop (h2 x hx)⟩

theorem packArr_length (c : Codec) (ws : List Nat) : (packArr c ws).length = ws.length / c.k := by
  simp [packArr, chunks_length]

theorem packArr_lt {c : Codec} (g : c.Good) (ws : List Nat) (hr : ∀ w ∈ ws, w < c.bound) :
    ∀ b ∈ packArr c ws, b < 256 := by
  intro b hb
  simp only [packArr, List.mem_map] at hb
  obtain ⟨v, hv, rfl⟩ := hb
  obtain ⟨hl, hm⟩ := chunks_mem c.k ws v hv
  exact (g.up v hl (fun x hx => hr x (hm x hx))).2

/-! ### the sub-byte depths go through one good codec -/

theorem sub_codec (d : Nat) (h : d = 1 ∨ d = 2 ∨ d = 4) :
    ∃ c : Codec, c.Good ∧ c.k = 8 / d ∧ c.bound = 2 ^ d ∧
      (∀ ws, encodeSamples d ws = .ok (packArr c ws)) ∧
      (∀ bs, decodeSamples d bs = .ok (unpackArr c bs)) := by
  obtain ⟨h1, h2, h4⟩ := default_orders
  rcases h with rfl | rfl | rfl
  · obtain ⟨g, hk, hb⟩ := codec_good 1 .little _ rfl
    exact ⟨_, g, hk, hb, fun ws => by simp [encodeSamples, h1, codec],
      fun bs => by simp [decodeSamples, h1, codec]⟩
  · obtain ⟨g, hk, hb⟩ := codec_good 2 .big _ rfl
    exact ⟨_, g, hk, hb, fun ws => by simp [encodeSamples, h2, codec],
      fun bs => by simp [decodeSamples, h2, codec]⟩
  · obtain ⟨g, hk, hb⟩ := codec_good 4 .big _ rfl
    exact ⟨_, g, hk, hb, fun ws => by simp [encodeSamples, h4, codec],
      fun bs => by simp [decodeSamples, h4, codec]⟩

/-- `WholeBytes` at a sub-byte depth: the count is a multiple of `8/d` -/
theorem whole_sub {d : Nat} (h : d = 1 ∨ d = 2 ∨ d = 4) {ws : List Nat} (hw : WholeBytes d ws) :
    ws.length % (8 / d) = 0 := by
  unfold WholeBytes at hw
  rcases h with rfl | rfl | rfl <;> simp only [Nat.reduceDiv] <;> omega

/-! ### 8 / 16 / 32-bit primitives -/

theorem map_mod_id (ws : List Nat) (h : ∀ w ∈ ws, w < 256) : ws.map (· % 256) = ws := by
  induction ws with
  | nil => rfl
  | cons w ws ih =>
    simp only [List.map_cons]
    rw [ih (fun x hx => h x (by simp [hx])), Nat.mod_eq_of_lt (h w (by simp))]

theorem rd16s_le16 (ws : List Nat) (h : ∀ w ∈ ws, w < 2 ^ 16) : rd16s (ws.flatMap le16) = ws := by
  induction ws with
  | nil => rfl
  | cons w ws ih =>
    have hw := h w (by simp)
    simp only [List.flatMap_cons, le16, List.cons_append, List.nil_append, rd16s]
    rw [ih (fun x hx => h x (by simp [hx]))]
    congr 1
    omega

theorem rd32s_le32 (ws : List Nat) (h : ∀ w ∈ ws, w < 2 ^ 32) :
    rd32s (ws.flatMap Sigproc.le32) = ws := by
  induction ws with
  | nil => rfl
  | cons w ws ih =>
    have hw := h w (by simp)
    simp only [List.flatMap_cons, Sigproc.le32, List.cons_append, List.nil_append, rd32s]
    rw [ih (fun x hx => h x (by simp [hx]))]
    congr 1
    omega

theorem flatMap_le16_length (ws : List Nat) : (ws.flatMap le16).length = 2 * ws.length := by
  induction ws with
  | nil => rfl
  | cons w ws ih => simp only [List.flatMap_cons, List.length_append, ih, le16, List.length_cons,
      List.length_nil]; omega

theorem flatMap_le32_length (ws : List Nat) : (ws.flatMap Sigproc.le32).length = 4 * ws.length := by
  induction ws with
  | nil => rfl
  | cons w ws ih => simp only [List.flatMap_cons, List.length_append, ih, Sigproc.le32,
      List.length_cons, List.length_nil]; omega

/-! ### the encoder as a total function on supported depths -/

/-- the bytes `encodeSamples` produces (`[]` where it refuses) -/
def encP (d : Nat) (ws : List Nat) : Bytes :=
  match encodeSamples d ws with
  | .ok b => b
  | .error _ => []

theorem encodeSamples_ok {d : Nat} (hd : Depth d) (ws : List Nat) :
    encodeSamples d ws = .ok (encP d ws) := by
  have key : ∃ b, encodeSamples d ws = .ok b := by
    rcases hd.cases with hs | rfl | rfl | rfl
    · obtain ⟨c, -, -, -, he, -⟩ := sub_codec d hs
      exact ⟨_, he ws⟩
    · exact ⟨ws.map (· % 256), by simp [encodeSamples]⟩
    · exact ⟨ws.flatMap le16, by simp [encodeSamples]⟩
    · exact ⟨ws.flatMap Sigproc.le32, by simp [encodeSamples]⟩
  obtain ⟨b, hb⟩ := key
  simp [encP, hb]

theorem encP_eq {d : Nat} {ws : List Nat} {bs : Bytes} (h : encodeSamples d ws = .ok bs) :
    encP d ws = bs := by
  simp [encP, h]

theorem encP_sub {d : Nat} {c : Codec} (he : ∀ ws, encodeSamples d ws = .ok (packArr c ws))
    (ws : List Nat) : encP d ws = packArr c ws := encP_eq (he ws)

theorem encP_8 (ws : List Nat) : encP 8 ws = ws.map (· % 256) := encP_eq (by simp [encodeSamples])
theorem encP_16 (ws : List Nat) : encP 16 ws = ws.flatMap le16 := encP_eq (by simp [encodeSamples])
theorem encP_32 (ws : List Nat) : encP 32 ws = ws.flatMap Sigproc.le32 :=
  encP_eq (by simp [encodeSamples])

theorem encP_length {d : Nat} (hd : Depth d) (ws : List Nat) (hw : WholeBytes d ws) :
    (encP d ws).length * 8 = ws.length * d := by
  rcases hd.cases with hs | rfl | rfl | rfl
  · obtain ⟨c, g, hk, -, he, -⟩ := sub_codec d hs
    rw [encP_sub he, packArr_length, hk]
    unfold WholeBytes at hw
    rcases hs with rfl | rfl | rfl <;> simp only [Nat.reduceDiv] <;> omega
  · simp [encP_8]
  · rw [encP_16, flatMap_le16_length]; omega
  · rw [encP_32, flatMap_le32_length]; omega

theorem encP_lt {d : Nat} (hd : Depth d) (ws : List Nat) (hr : InRange d ws) :
    ∀ b ∈ encP d ws, b < 256 := by
  rcases hd.cases with hs | rfl | rfl | rfl
  · obtain ⟨c, g, -, hb, he, -⟩ := sub_codec d hs
    rw [encP_sub he]
    exact packArr_lt g ws (hb ▸ hr)
  · rw [encP_8]; intro b hb
    simp only [List.mem_map] at hb
    obtain ⟨w, -, rfl⟩ := hb
    exact Nat.mod_lt _ (by decide)
  · rw [encP_16]; intro b hb
    simp only [List.mem_flatMap, le16, List.mem_cons, List.not_mem_nil, or_false] at hb
    obtain ⟨w, -, rfl | rfl⟩ := hb <;> exact Nat.mod_lt _ (by decide)
  · rw [encP_32]; intro b hb
    simp only [List.mem_flatMap, Sigproc.le32, List.mem_cons, List.not_mem_nil, or_false] at hb
    obtain ⟨w, -, rfl | rfl | rfl | rfl⟩ := hb <;> exact Nat.mod_lt _ (by decide)

theorem decode_encP {d : Nat} (hd : Depth d) (ws : List Nat) (hr : InRange d ws)
    (hw : WholeBytes d ws) : decodeSamples d (encP d ws) = .ok ws := by
  rcases hd.cases with hs | rfl | rfl | rfl
  · obtain ⟨c, g, hk, hb, he, hdec⟩ := sub_codec d hs
    rw [encP_sub he, hdec, unpackArr_packArr g ws (hk ▸ whole_sub hs hw) (hb ▸ hr)]
  · rw [encP_8, map_mod_id ws hr]; simp [decodeSamples]
  · rw [encP_16]; simp [decodeSamples, rd16s_le16 ws hr]
  · rw [encP_32]; simp [decodeSamples, rd32s_le32 ws hr]

theorem encP_append {d : Nat} (hd : Depth d) (xs ys : List Nat) (hw : WholeBytes d xs) :
    encP d (xs ++ ys) = encP d xs ++ encP d ys := by
  rcases hd.cases with hs | rfl | rfl | rfl
  · obtain ⟨c, g, hk, -, he, -⟩ := sub_codec d hs
    simp only [encP_sub he]
    exact packArr_append g xs ys (hk ▸ whole_sub hs hw)
  · simp [encP_8]
  · simp [encP_16]
  · simp [encP_32]

theorem encP_nil {d : Nat} (hd : Depth d) : encP d [] = [] := by
  have := encP_length hd [] (by simp [WholeBytes])
  simp only [List.length_nil, Nat.zero_mul] at this
  exact List.eq_nil_of_length_eq_zero (by omega)

theorem WholeBytes.take {d : Nat} {ws : List Nat} {m : Nat} (hm : m ≤ ws.length)
    (hmw : (m * d) % 8 = 0) : WholeBytes d (ws.take m) := by
  unfold WholeBytes
  rw [List.length_take, Nat.min_eq_left hm]; exact hmw

/-! ### `cwrite` -/

theorem cwrite_of_wide {d : Nat} (h : ¬ (d = 1 ∨ d = 2 ∨ d = 4)) (dt : DType) (ws : List Nat) :
    cwrite d dt ws = encodeSamples d ws := by
  simp [cwrite, h]

theorem cwrite_uint8 (d : Nat) (ws : List Nat) : cwrite d .uint8 ws = encodeSamples d ws := by
  simp [cwrite]

theorem cwrite_refuse {d : Nat} (h : d = 1 ∨ d = 2 ∨ d = 4) {dt : DType} (hdt : dt ≠ .uint8)
    (ws : List Nat) : cwrite d dt ws = .error .valueError := by
  simp [cwrite, h, hdt]

/-- outside the refusing case `cwrite` is the encoder -/
theorem cwrite_eq_encode {d : Nat} {dt : DType} (h : ¬ (d < 8 ∧ dt ≠ .uint8))
    (ws : List Nat) : cwrite d dt ws = encodeSamples d ws := by
  by_cases hs : d = 1 ∨ d = 2 ∨ d = 4
  · have : dt = .uint8 := by
      apply Classical.byContradiction; intro hne; exact h ⟨by omega, hne⟩
    subst this; exact cwrite_uint8 d ws
  · exact cwrite_of_wide hs dt ws

theorem cwriteAll_ok {d : Nat} {dt : DType} (h : ¬ (d < 8 ∧ dt ≠ .uint8)) (hd : Depth d)
    (chunks : List (List Nat)) (hw : ∀ c ∈ chunks, WholeBytes d c) :
    cwriteAll d dt chunks = .ok (encP d chunks.flatten) := by
  induction chunks with
  | nil => simp [cwriteAll, encP_nil hd]
  | cons c cs ih =>
    rw [cwriteAll, cwrite_eq_encode h, encodeSamples_ok hd, ih (fun x hx => hw x (by simp [hx]))]
    simp only [List.flatten_cons]
    rw [encP_append hd _ _ (hw c (by simp))]

/-! ### sample-count arithmetic -/

theorem infer_nsamples_lem (n C d : Nat) (hd : 0 < d) (hC : 0 < C) (hb : (C * d) % 8 = 0) :
    inferNsamples (n * C * d / 8) d C = n := by
  have hdvd : 8 ∣ n * C * d := by
    rw [Nat.mul_assoc]
    exact Nat.dvd_trans (Nat.dvd_of_mod_eq_zero hb) (Nat.dvd_mul_left _ _)
  unfold inferNsamples
  rw [Nat.mul_div_cancel' hdvd, Nat.mul_div_cancel _ hd, Nat.mul_div_cancel _ hC]

end SppModel.Samples

import SppModel.Model.Moments
import Mathlib.Tactic.Ring
import Mathlib.Tactic.FieldSimp
import Mathlib.Tactic.Linarith
import Mathlib.Tactic.Positivity
import Mathlib.Algebra.BigOperators.Group.List.Basic
import Mathlib.Algebra.Order.Field.Rat
/-! Exact moment algebra over ℚ on lists (helper lemmas for C10). -/
namespace SppModel.Moments

theorem S_nil (k c) : S k [] c = 0 := by simp [S]
theorem S_cons (k x xs c) : S k (x :: xs) c = (x - c) ^ k + S k xs c := by simp [S]
theorem S_append (k xs ys c) : S k (xs ++ ys) c = S k xs c + S k ys c := by
  simp [S, List.map_append, List.sum_append]
theorem S_single (k x c) : S k [x] c = (x - c) ^ k := by simp [S]

theorem S1_shift (xs : List ℚ) (c d : ℚ) : S 1 xs (c + d) = S 1 xs c - xs.length * d := by
  induction xs with
  | nil => simp [S]
  | cons x xs ih => rw [S_cons, S_cons, ih]; simp only [List.length_cons]; push_cast; ring
theorem S2_shift (xs : List ℚ) (c d : ℚ) :
    S 2 xs (c + d) = S 2 xs c - 2 * d * S 1 xs c + xs.length * d ^ 2 := by
  induction xs with
  | nil => simp [S]
  | cons x xs ih => rw [S_cons, S_cons, S_cons, ih]; simp only [List.length_cons]; push_cast; ring
theorem S3_shift (xs : List ℚ) (c d : ℚ) :
    S 3 xs (c + d) = S 3 xs c - 3 * d * S 2 xs c + 3 * d ^ 2 * S 1 xs c - xs.length * d ^ 3 := by
  induction xs with
  | nil => simp [S]
  | cons x xs ih => rw [S_cons, S_cons, S_cons, S_cons, ih]; simp only [List.length_cons]; push_cast; ring
theorem S4_shift (xs : List ℚ) (c d : ℚ) :
    S 4 xs (c + d) = S 4 xs c - 4 * d * S 3 xs c + 6 * d ^ 2 * S 2 xs c - 4 * d ^ 3 * S 1 xs c
      + xs.length * d ^ 4 := by
  induction xs with
  | nil => simp [S]
  | cons x xs ih => rw [S_cons, S_cons, S_cons, S_cons, S_cons, ih]; simp only [List.length_cons]; push_cast; ring

theorem lenQ_ne (xs : List ℚ) (h : xs ≠ []) : (xs.length : ℚ) ≠ 0 := by
  have : xs.length ≠ 0 := by simpa [List.length_eq_zero_iff] using h
  exact_mod_cast this

theorem S1_mean (xs : List ℚ) (h : xs ≠ []) : S 1 xs (mean xs) = 0 := by
  have hl := lenQ_ne xs h
  have h0 : S 1 xs 0 = xs.sum := by
    unfold S; congr 1; induction xs with
    | nil => rfl
    | cons x xs ih => simp
  have := S1_shift xs 0 (mean xs)
  simp only [zero_add] at this
  rw [this, h0, mean]; field_simp; ring

theorem mean_append (xs ys : List ℚ) (hx : xs ≠ []) (hy : ys ≠ []) :
    mean (xs ++ ys) = (xs.length * mean xs + ys.length * mean ys) / (xs.length + ys.length) := by
  have hlx := lenQ_ne xs hx
  have hly := lenQ_ne ys hy
  simp only [mean, List.sum_append, List.length_append]; push_cast
  field_simp

theorem S2_at (xs : List ℚ) (M : ℚ) (hx : xs ≠ []) :
    S 2 xs M = S 2 xs (mean xs) + xs.length * (M - mean xs) ^ 2 := by
  have := S2_shift xs (mean xs) (M - mean xs)
  rw [add_sub_cancel, S1_mean xs hx] at this; rw [this]; ring
theorem S3_at (xs : List ℚ) (M : ℚ) (hx : xs ≠ []) :
    S 3 xs M = S 3 xs (mean xs) - 3 * (M - mean xs) * S 2 xs (mean xs) - xs.length * (M - mean xs) ^ 3 := by
  have := S3_shift xs (mean xs) (M - mean xs)
  rw [add_sub_cancel, S1_mean xs hx] at this; rw [this]; ring
theorem S4_at (xs : List ℚ) (M : ℚ) (hx : xs ≠ []) :
    S 4 xs M = S 4 xs (mean xs) - 4 * (M - mean xs) * S 3 xs (mean xs)
      + 6 * (M - mean xs) ^ 2 * S 2 xs (mean xs) + xs.length * (M - mean xs) ^ 4 := by
  have := S4_shift xs (mean xs) (M - mean xs)
  rw [add_sub_cancel, S1_mean xs hx] at this; rw [this]; ring

/-- Pébay merge is exact -/
theorem merge_exact (xs ys : List ℚ) (hx : xs ≠ []) (hy : ys ≠ []) :
    merge (stats xs) (stats ys) = stats (xs ++ ys) := by
  have hlx := lenQ_ne xs hx
  have hly := lenQ_ne ys hy
  have hpos : (xs.length : ℚ) + ys.length ≠ 0 := by positivity
  have hμ := mean_append xs ys hx hy
  simp only [stats, merge, Mom.mk.injEq, List.length_append, Nat.cast_add]
  refine ⟨trivial, hμ.symm, ?_, ?_, ?_⟩
  · rw [S_append, S2_at xs (mean (xs ++ ys)) hx, S2_at ys (mean (xs ++ ys)) hy, hμ]; field_simp; ring
  · rw [S_append, S3_at xs (mean (xs ++ ys)) hx, S3_at ys (mean (xs ++ ys)) hy, hμ]; field_simp; ring
  · rw [S_append, S4_at xs (mean (xs ++ ys)) hx, S4_at ys (mean (xs ++ ys)) hy, hμ]; field_simp; ring

theorem update_zero (x : ℚ) : update Mom.zero x = stats [x] := by
  simp [update, Mom.zero, stats, mean, S]

theorem mean_snoc (xs : List ℚ) (x : ℚ) (hx : xs ≠ []) :
    mean (xs ++ [x]) = mean xs + (x - mean xs) / (xs.length + 1) := by
  have hlx := lenQ_ne xs hx
  have hpos : (xs.length : ℚ) + 1 ≠ 0 := by positivity
  simp only [mean, List.sum_append, List.length_append, List.sum_cons, List.sum_nil, List.length_cons,
    List.length_nil]; push_cast
  field_simp; ring

/-- the one-sample recurrence is exact -/
theorem update_stats (xs : List ℚ) (x : ℚ) (hx : xs ≠ []) : update (stats xs) x = stats (xs ++ [x]) := by
  have hlx := lenQ_ne xs hx
  have hpos : (xs.length : ℚ) + 1 ≠ 0 := by positivity
  have hμ := mean_snoc xs x hx
  simp only [stats, update, Mom.mk.injEq, List.length_append, List.length_cons, List.length_nil, Nat.cast_add,
    Nat.cast_one]
  refine ⟨trivial, hμ.symm, ?_, ?_, ?_⟩
  · rw [S_append, S_single, S2_at xs (mean (xs ++ [x])) hx, hμ]; field_simp; ring
  · rw [S_append, S_single, S3_at xs (mean (xs ++ [x])) hx, hμ]; field_simp; ring
  · rw [S_append, S_single, S4_at xs (mean (xs ++ [x])) hx, hμ]; field_simp; ring

end SppModel.Moments

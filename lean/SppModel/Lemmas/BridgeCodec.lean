import SppModel.Model.CodecPrims
/-!
Normalisation lemmas for the bridge obligations of `Generated.SigprocCodec` (`translator/bridge.py` adds them to the
`simp only` set of that module): monad laws of the explicit `bindE` combinator, negated conditions, reads of a dict
entry that was just written, `str.ljust` after a slice.  With them two translations that differ by an extracted /
inlined helper, an inverted `if`, or a value kept in a local instead of being read back from the dict normalise to
the same term.  All are proved here; none is an assumption.
-/
namespace SppModel.CodecPrims

theorem bindE_ok {α β : Type} (a : α) (f : α → Except String β) : bindE (.ok a) f = f a := by
  unfold bindE; rfl
theorem bindE_error {α β : Type} (e : String) (f : α → Except String β) : bindE (.error e) f = .error e := by
  unfold bindE; rfl
theorem bindE_assoc {α β γ : Type} (m : Except String α) (f : α → Except String β) (g : β → Except String γ) :
    bindE (bindE m f) g = bindE m (fun x => bindE (f x) g) := by
  cases m <;> simp only [bindE_ok, bindE_error]
theorem bindE_pure_right {α : Type} (m : Except String α) : bindE m (fun r => .ok r) = m := by
  cases m <;> simp only [bindE_ok, bindE_error]

theorem ite_eq_false_swap {α : Type} (b : Bool) (x y : α) :
    (if b = false then x else y) = (if b = true then y else x) := by
  cases b <;> simp

theorem bindE_ite {α β : Type} (c : Prop) [Decidable c] (a b : Except String α) (f : α → Except String β) :
    bindE (if c then a else b) f = if c then bindE a f else bindE b f := by
  split <;> rfl

theorem ljust_take (v : Bytes) (n : Int) :
    ljust (v.take n.toNat) n = v.take n.toNat ++ List.replicate (n - ((v.length : Nat) : Int)).toNat 32 := by
  unfold ljust
  congr 2
  rw [List.length_take]
  omega

theorem dict_get_set_same (d : Dict) (k : Bytes) (v : PyVal) : Dict.get (Dict.set d k v) k = .ok v := by
  unfold Dict.get Dict.set
  by_cases h : d.any (fun kv => kv.1 == k) = true
  · rw [if_pos h]
    induction d with
    | nil => simp at h
    | cons kv rest ih =>
      simp only [List.map_cons, List.find?_cons]
      by_cases hk : (kv.1 == k) = true
      · simp [hk]
      · have hr : rest.any (fun kv => kv.1 == k) = true := by
          simpa [List.any_cons, hk] using h
        simp only [hk, if_false, Bool.false_eq_true]
        simpa using ih hr
  · rw [if_neg h]
    have hn : ∀ kv ∈ d, (kv.1 == k) = false := by
      intro kv hkv
      cases hb : (kv.1 == k) with
      | false => rfl
      | true => exact absurd (List.any_eq_true.mpr ⟨kv, hkv, hb⟩) h
    rw [List.find?_append, List.find?_eq_none.mpr (by intro kv hkv; simp [hn kv hkv])]
    simp

end SppModel.CodecPrims

namespace SppModel.CodecPrims

theorem dict_get_set_ne (d : Dict) (k k' : Bytes) (v : PyVal) (h : (k == k') = false) :
    Dict.get (Dict.set d k v) k' = Dict.get d k' := by
  have hk : ∀ x : Bytes, (x == k) = true → (x == k') = false := by
    intro x hx
    have : x = k := by simpa using hx
    subst this; exact h
  unfold Dict.get Dict.set
  by_cases ha : d.any (fun kv => kv.1 == k) = true
  · rw [if_pos ha]
    congr 1
    clear ha
    induction d with
    | nil => rfl
    | cons kv rest ih =>
      rw [List.map_cons]
      by_cases hkv : (kv.1 == k) = true
      · have e : (if (kv.1 == k) = true then (k, v) else kv) = (k, v) := by simp [hkv]
        rw [e, List.find?_cons, List.find?_cons]
        simp only [h, hk kv.1 hkv]
        exact ih
      · have e : (if (kv.1 == k) = true then (k, v) else kv) = kv := by simp [hkv]
        rw [e, List.find?_cons, List.find?_cons]
        cases hb : (kv.1 == k') with
        | true => rfl
        | false => exact ih
  · rw [if_neg ha, List.find?_append]
    cases hf : d.find? (fun kv => kv.1 == k') with
    | some x => rfl
    | none => simp [h]

end SppModel.CodecPrims

namespace SppModel.CodecPrims

/-- a step performed before a case analysis is the same step performed at the start of every branch -/
theorem bindE_optCases_comm {α β γ : Type} (m : Except String α) (o : Option β)
    (n : α → Except String γ) (s : α → β → Except String γ) :
    bindE m (fun t => optCases o (n t) (fun x => s t x)) = optCases o (bindE m n) (fun x => bindE m (fun t => s t x)) := by
  cases o <;> (unfold optCases; rfl)

theorem bindE_ite_comm {α γ : Type} (m : Except String α) (c : Prop) [Decidable c]
    (a b : α → Except String γ) :
    bindE m (fun t => if c then a t else b t) = if c then bindE m a else bindE m b := by
  split <;> rfl

end SppModel.CodecPrims

namespace SppModel.CodecPrims

/-! distinct literal keys (side conditions of `dict_get_set_ne`) -/
theorem key_ne_hdrlen_filelen : (ascii "hdrlen" == ascii "filelen") = false := by decide
theorem key_ne_hdrlen_datalen : (ascii "hdrlen" == ascii "datalen") = false := by decide
theorem key_ne_hdrlen_nsamples : (ascii "hdrlen" == ascii "nsamples") = false := by decide
theorem key_ne_hdrlen_nbits : (ascii "hdrlen" == ascii "nbits") = false := by decide
theorem key_ne_hdrlen_nchans : (ascii "hdrlen" == ascii "nchans") = false := by decide
theorem key_ne_hdrlen_source_name : (ascii "hdrlen" == ascii "source_name") = false := by decide
theorem key_ne_filelen_hdrlen : (ascii "filelen" == ascii "hdrlen") = false := by decide
theorem key_ne_filelen_datalen : (ascii "filelen" == ascii "datalen") = false := by decide
theorem key_ne_filelen_nsamples : (ascii "filelen" == ascii "nsamples") = false := by decide
theorem key_ne_filelen_nbits : (ascii "filelen" == ascii "nbits") = false := by decide
theorem key_ne_filelen_nchans : (ascii "filelen" == ascii "nchans") = false := by decide
theorem key_ne_filelen_source_name : (ascii "filelen" == ascii "source_name") = false := by decide
theorem key_ne_datalen_hdrlen : (ascii "datalen" == ascii "hdrlen") = false := by decide
theorem key_ne_datalen_filelen : (ascii "datalen" == ascii "filelen") = false := by decide
theorem key_ne_datalen_nsamples : (ascii "datalen" == ascii "nsamples") = false := by decide
theorem key_ne_datalen_nbits : (ascii "datalen" == ascii "nbits") = false := by decide
theorem key_ne_datalen_nchans : (ascii "datalen" == ascii "nchans") = false := by decide
theorem key_ne_datalen_source_name : (ascii "datalen" == ascii "source_name") = false := by decide
theorem key_ne_nsamples_hdrlen : (ascii "nsamples" == ascii "hdrlen") = false := by decide
theorem key_ne_nsamples_filelen : (ascii "nsamples" == ascii "filelen") = false := by decide
theorem key_ne_nsamples_datalen : (ascii "nsamples" == ascii "datalen") = false := by decide
theorem key_ne_nsamples_nbits : (ascii "nsamples" == ascii "nbits") = false := by decide
theorem key_ne_nsamples_nchans : (ascii "nsamples" == ascii "nchans") = false := by decide
theorem key_ne_nsamples_source_name : (ascii "nsamples" == ascii "source_name") = false := by decide

end SppModel.CodecPrims

import SppModel.Generated.SeekArith
import SppModel.Lemmas.SeekArith
import SppModel.Props.Tie.SeekArith
/-! Helper definitions and lemmas for the `ReadLoops` source tie (core Lean only).

`ciStep` / `crStep` are hand-written closed forms of ONE iteration of the translated `creadinto` / `cread` loops,
as a function of the loop state `(reader state, segments so far, counter)`.  The tie file proves (by `rfl`, against
whatever text the translator produced on this run) that the translated loop bodies are these closed forms; everything
else is stated about the closed forms and never mentions generated syntax. -/
namespace SppModel.ReadLoops
open SppModel SppModel.Generated.SeekArith SppModel.SeekArith

variable {α : Type}

/-- the loop state of both read loops: reader state, segments taken so far, a counter -/
abbrev Loop := SeekSt × List Seg × Int

/-- one iteration of the `creadinto` loop -/
def ciStep (env : SeekEnv) (want : Int) (s : SeekSt) (segs : List Seg) (nb : Int) : Except String (Bool × Loop) :=
  if nb + env.avail s (want - nb) = want ∨
      (decide (s.pos + env.avail s (want - nb) = env.size s.ifile) && decide (s.ifile = env.nfiles - 1)) = true then
    .ok (false, (⟨s.ifile, s.pos + env.avail s (want - nb)⟩,
      segs ++ [(s.ifile, s.pos, env.avail s (want - nb))], nb + env.avail s (want - nb)))
  else
    match _seek2hdr env ⟨s.ifile, s.pos + env.avail s (want - nb)⟩ (s.ifile + 1) with
    | .error err => .error err
    | .ok (_, s') => .ok (true, (s', segs ++ [(s.ifile, s.pos, env.avail s (want - nb))], nb + env.avail s (want - nb)))

/-- items `np.fromfile(file_obj, count=min(datalen, count))` delivers at the current position -/
def crGot (env : SeekEnv) (w : Int) (s : SeekSt) (cnt : Int) : Int :=
  max 0 (min (min (env.dlen s.ifile) cnt) ((env.size s.ifile - s.pos) / w))

/-- one iteration of the `cread` loop -/
def crStep (env : SeekEnv) (w : Int) (s : SeekSt) (segs : List Seg) (cnt : Int) : Except String (Bool × Loop) :=
  if ¬ (cnt ≥ 0) then .ok (false, (s, segs, cnt)) else
  if cnt - crGot env w s cnt = 0 then
    .ok (false, (⟨s.ifile, s.pos + crGot env w s cnt * w⟩, segs ++ [(s.ifile, s.pos, crGot env w s cnt * w)],
      cnt - crGot env w s cnt))
  else
    match _seek2hdr env ⟨s.ifile, s.pos + crGot env w s cnt * w⟩ (s.ifile + 1) with
    | .error err => .error err
    | .ok (_, s') => .ok (true, (s', segs ++ [(s.ifile, s.pos, crGot env w s cnt * w)], cnt - crGot env w s cnt))

/-- what both methods return once the loop is over -/
def finish : Except String Loop → Except String ((List Seg × Int) × SeekSt)
  | .error err => .error err
  | .ok (s, segs, n) => .ok ((segs, n), s)

/-! ### the stream description of a file list -/

theorem getD_of_lt (fs : Stream.Files α) (i : Nat) (h : i < fs.length) : fs.getD i ⟨[], []⟩ = fs[i] := by
  simp [List.getD_eq_getElem?_getD, h]

theorem size_envOf (fs : Stream.Files α) (i : Nat) :
    (envOf fs).size (i : Int) = (((fs.getD i ⟨[], []⟩).content.length : Nat) : Int) := by
  simp only [SeekEnv.size, SeekEnv.hdr, envOf, Int.toNat_natCast, List.getD_eq_getElem?_getD, List.getElem?_map]
  cases fs[i]? <;> simp [Stream.File.content]

theorem dlen_envOf (fs : Stream.Files α) (i : Nat) :
    (envOf fs).dlen (i : Int) = (((fs.getD i ⟨[], []⟩).data.length : Nat) : Int) := by
  simp only [SeekEnv.dlen, envOf, Int.toNat_natCast, List.getD_eq_getElem?_getD, List.getElem?_map]
  cases fs[i]? <;> simp

theorem avail_envOf (fs : Stream.Files α) (i p want nb : Nat)
    (hp : p ≤ (fs.getD i ⟨[], []⟩).content.length) (hnb : nb ≤ want) :
    (envOf fs).avail ⟨(i : Int), (p : Int)⟩ ((want : Int) - (nb : Int))
      = ((min (want - nb) ((fs.getD i ⟨[], []⟩).content.length - p) : Nat) : Int) := by
  simp only [SeekEnv.avail, size_envOf]
  omega

theorem seek2hdr_next (fs : Stream.Files α) (s : SeekSt) (i : Nat) (h : i + 1 < fs.length) :
    _seek2hdr (envOf fs) s ((i : Int) + 1) = .ok ((), ⟨((i + 1 : Nat) : Int), ((Stream.hdrlen fs (i + 1) : Nat) : Int)⟩) := by
  have hr : ¬ (((i : Int) + 1) < 0 ∨ ((i : Int) + 1) ≥ (envOf fs).nfiles) := by rw [nfiles_envOf]; omega
  rw [Tie.seek2hdr_ok _ _ _ hr]
  have := hdr_envOf_nat fs (i + 1)
  rw [Int.natCast_add, Int.natCast_one] at this ⊢
  rw [this]

/-- the `creadinto` iteration stops: the request is satisfied, or this was the last file -/
theorem ciStep_stop (fs : Stream.Files α) (i p want nb : Nat) (segs : List Seg) (hi : i < fs.length)
    (hp : p ≤ (fs.getD i ⟨[], []⟩).content.length) (hnb : nb ≤ want)
    (h : (want - nb) - min (want - nb) ((fs.getD i ⟨[], []⟩).content.length - p) = 0 ∨ ¬ i + 1 < fs.length) :
    ciStep (envOf fs) (want : Int) ⟨(i : Int), (p : Int)⟩ segs (nb : Int)
      = .ok (false, (⟨(i : Int), ((p + min (want - nb) ((fs.getD i ⟨[], []⟩).content.length - p) : Nat) : Int)⟩,
          segs ++ [((i : Int), (p : Int), ((min (want - nb) ((fs.getD i ⟨[], []⟩).content.length - p) : Nat) : Int))],
          ((nb + min (want - nb) ((fs.getD i ⟨[], []⟩).content.length - p) : Nat) : Int))) := by
  have ha := avail_envOf fs i p want nb hp hnb
  simp only [ciStep, ha, size_envOf, nfiles_envOf, Bool.and_eq_true, decide_eq_true_eq]
  rw [if_pos (by omega)]
  simp only [Int.natCast_add]

/-- the `creadinto` iteration goes on: the file is exhausted, the request is not, and there is a next file -/
theorem ciStep_next (fs : Stream.Files α) (i p want nb : Nat) (segs : List Seg)
    (hp : p ≤ (fs.getD i ⟨[], []⟩).content.length) (hnb : nb ≤ want)
    (h0 : (want - nb) - min (want - nb) ((fs.getD i ⟨[], []⟩).content.length - p) ≠ 0) (h1 : i + 1 < fs.length) :
    ciStep (envOf fs) (want : Int) ⟨(i : Int), (p : Int)⟩ segs (nb : Int)
      = .ok (true, (⟨((i + 1 : Nat) : Int), ((Stream.hdrlen fs (i + 1) : Nat) : Int)⟩,
          segs ++ [((i : Int), (p : Int), ((min (want - nb) ((fs.getD i ⟨[], []⟩).content.length - p) : Nat) : Int))],
          ((nb + min (want - nb) ((fs.getD i ⟨[], []⟩).content.length - p) : Nat) : Int))) := by
  have ha := avail_envOf fs i p want nb hp hnb
  simp only [ciStep, ha, size_envOf, nfiles_envOf, Bool.and_eq_true, decide_eq_true_eq]
  rw [if_neg (by omega), seek2hdr_next fs _ i h1]
  simp only [Int.natCast_add]

/-! ### one step of the model's read loop, with the open file written `fs.getD i ⟨[], []⟩` -/

theorem readLoop_stop (fs : Stream.Files α) (fm i p b : Nat) (acc : List α) (hi : i < fs.length)
    (h : b - min b ((fs.getD i ⟨[], []⟩).content.length - p) = 0 ∨ ¬ i + 1 < fs.length) :
    Stream.readLoop fs (fm + 1) ⟨i, p⟩ b acc
      = (acc ++ ((fs.getD i ⟨[], []⟩).content.drop p).take (min b ((fs.getD i ⟨[], []⟩).content.length - p)),
          ⟨i, p + min b ((fs.getD i ⟨[], []⟩).content.length - p)⟩,
          b - min b ((fs.getD i ⟨[], []⟩).content.length - p)) := by
  rw [getD_of_lt fs i hi] at h ⊢
  rw [Stream.readLoop]
  simp only [List.getElem?_eq_getElem hi]
  by_cases h0 : b - min b (fs[i].content.length - p) = 0
  · rw [if_pos h0, h0]
  · rw [if_neg h0, if_neg (by omega)]

theorem readLoop_next (fs : Stream.Files α) (fm i p b : Nat) (acc : List α) (hi : i < fs.length)
    (h0 : b - min b ((fs.getD i ⟨[], []⟩).content.length - p) ≠ 0) (h1 : i + 1 < fs.length) :
    Stream.readLoop fs (fm + 1) ⟨i, p⟩ b acc
      = Stream.readLoop fs fm ⟨i + 1, Stream.hdrlen fs (i + 1)⟩ (b - min b ((fs.getD i ⟨[], []⟩).content.length - p))
          (acc ++ ((fs.getD i ⟨[], []⟩).content.drop p).take (min b ((fs.getD i ⟨[], []⟩).content.length - p))) := by
  rw [getD_of_lt fs i hi] at h0 ⊢
  rw [Stream.readLoop]
  simp only [List.getElem?_eq_getElem hi]
  rw [if_neg h0, if_pos h1]

theorem hdrlen_le_content (fs : Stream.Files α) (i : Nat) :
    Stream.hdrlen fs i ≤ (fs.getD i ⟨[], []⟩).content.length := by
  simp only [Stream.hdrlen, List.getD_eq_getElem?_getD]
  cases fs[i]? <;> simp [Stream.File.content]

/-! ### one iteration of the `cread` loop -/

theorem seek2hdr_past (env : SeekEnv) (s : SeekSt) (j : Int) (h : j < 0 ∨ j ≥ env.nfiles) :
    ∃ e, _seek2hdr env s j = .error e := by
  simp only [_seek2hdr, _open, if_pos h]
  exact ⟨_, rfl⟩

theorem min_mul_mul (c k w : Nat) : min (c * w) (k * w) = min c k * w := by
  rcases Nat.le_total c k with h | h
  · rw [Nat.min_eq_left h, Nat.min_eq_left (Nat.mul_le_mul_right w h)]
  · rw [Nat.min_eq_right h, Nat.min_eq_right (Nat.mul_le_mul_right w h)]

/-- items delivered by one `np.fromfile`: the request or what the file still has, whichever is smaller -/
theorem crGot_envOf (fs : Stream.Files α) (i p w c k : Nat) (hw : 0 < w)
    (hp : p ≤ (fs.getD i ⟨[], []⟩).content.length) (hk : (fs.getD i ⟨[], []⟩).content.length - p = k * w)
    (hkD : k ≤ (fs.getD i ⟨[], []⟩).data.length) :
    crGot (envOf fs) (w : Int) ⟨(i : Int), (p : Int)⟩ (c : Int) = ((min c k : Nat) : Int) := by
  have h1 : (envOf fs).size (i : Int) - (p : Int) = (k : Int) * (w : Int) := by
    rw [size_envOf, ← Int.natCast_mul, ← hk]; omega
  have hw' : (w : Int) ≠ 0 := by omega
  simp only [crGot, h1, dlen_envOf, Int.mul_ediv_cancel _ hw']
  omega

theorem crStep_done (fs : Stream.Files α) (i p w c k : Nat) (segs : List Seg) (hw : 0 < w)
    (hp : p ≤ (fs.getD i ⟨[], []⟩).content.length) (hk : (fs.getD i ⟨[], []⟩).content.length - p = k * w)
    (hkD : k ≤ (fs.getD i ⟨[], []⟩).data.length) (h : c ≤ k) :
    crStep (envOf fs) (w : Int) ⟨(i : Int), (p : Int)⟩ segs (c : Int)
      = .ok (false, (⟨(i : Int), ((p + min c k * w : Nat) : Int)⟩,
          segs ++ [((i : Int), (p : Int), ((min c k * w : Nat) : Int))], 0)) := by
  have hg := crGot_envOf fs i p w c k hw hp hk hkD
  have hc : ¬ ¬ ((c : Int) ≥ 0) := by omega
  have hz : (c : Int) - ((min c k : Nat) : Int) = 0 := by omega
  simp only [crStep, hg, if_neg hc, hz, if_true, Int.natCast_add, Int.natCast_mul]

theorem crStep_next (fs : Stream.Files α) (i p w c k : Nat) (segs : List Seg) (hw : 0 < w)
    (hp : p ≤ (fs.getD i ⟨[], []⟩).content.length) (hk : (fs.getD i ⟨[], []⟩).content.length - p = k * w)
    (hkD : k ≤ (fs.getD i ⟨[], []⟩).data.length) (h : k < c) (h1 : i + 1 < fs.length) :
    crStep (envOf fs) (w : Int) ⟨(i : Int), (p : Int)⟩ segs (c : Int)
      = .ok (true, (⟨((i + 1 : Nat) : Int), ((Stream.hdrlen fs (i + 1) : Nat) : Int)⟩,
          segs ++ [((i : Int), (p : Int), ((min c k * w : Nat) : Int))], ((c - min c k : Nat) : Int))) := by
  have hg := crGot_envOf fs i p w c k hw hp hk hkD
  have hc : ¬ ¬ ((c : Int) ≥ 0) := by omega
  have hz : ¬ (c : Int) - ((min c k : Nat) : Int) = 0 := by omega
  have hsub : (c : Int) - ((min c k : Nat) : Int) = ((c - min c k : Nat) : Int) := by omega
  rw [hsub] at hz
  simp only [crStep, hg, if_neg hc, hsub, if_neg hz, seek2hdr_next fs _ i h1, Int.natCast_mul]

theorem crStep_raise (fs : Stream.Files α) (i p w c k : Nat) (segs : List Seg) (hw : 0 < w)
    (hp : p ≤ (fs.getD i ⟨[], []⟩).content.length) (hk : (fs.getD i ⟨[], []⟩).content.length - p = k * w)
    (hkD : k ≤ (fs.getD i ⟨[], []⟩).data.length) (h : k < c) (h1 : ¬ i + 1 < fs.length) :
    ∃ e, crStep (envOf fs) (w : Int) ⟨(i : Int), (p : Int)⟩ segs (c : Int) = .error e := by
  have hg := crGot_envOf fs i p w c k hw hp hk hkD
  have hc : ¬ ¬ ((c : Int) ≥ 0) := by omega
  have hz : ¬ (c : Int) - ((min c k : Nat) : Int) = 0 := by omega
  obtain ⟨e, he⟩ := seek2hdr_past (envOf fs)
    ⟨(i : Int), (p : Int) + ((min c k : Nat) : Int) * (w : Int)⟩ ((i : Int) + 1)
    (by rw [nfiles_envOf]; omega)
  exact ⟨e, by simp only [crStep, hg, if_neg hc, if_neg hz, he]⟩

/-- what a file that opens at a whole number of items still has is a whole number of items, no more than its data section -/
theorem items_left (fs : Stream.Files α) (w i p : Nat) (hw : 0 < w) (hi : i < fs.length)
    (hfiles : ∀ f ∈ fs, w ∣ f.data.length ∧ w ∣ f.hdr.length) (hwp : w ∣ p) (hH : Stream.hdrlen fs i ≤ p) :
    ∃ k, (fs.getD i ⟨[], []⟩).content.length - p = k * w ∧ k ≤ (fs.getD i ⟨[], []⟩).data.length := by
  rw [getD_of_lt fs i hi]
  rw [Stream.hdrlen_of_lt fs i hi] at hH
  obtain ⟨hd, hh⟩ := hfiles fs[i] (List.getElem_mem hi)
  have hL : w ∣ fs[i].content.length := by
    rw [Stream.content_length]; exact Nat.dvd_add hh hd
  obtain ⟨k, hk⟩ := Nat.dvd_sub hL hwp
  refine ⟨k, by rw [hk, Nat.mul_comm], ?_⟩
  have h1 : k ≤ w * k := Nat.le_mul_of_pos_left k hw
  have h2 := Stream.content_length fs[i]
  omega

theorem hdrlen_dvd (fs : Stream.Files α) (w i : Nat) (hi : i < fs.length)
    (hfiles : ∀ f ∈ fs, w ∣ f.data.length ∧ w ∣ f.hdr.length) : w ∣ Stream.hdrlen fs i := by
  rw [Stream.hdrlen_of_lt fs i hi]
  exact (hfiles fs[i] (List.getElem_mem hi)).2

end SppModel.ReadLoops

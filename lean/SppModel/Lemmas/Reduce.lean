import SppModel.Model.Reduce
import SppModel.Props.C01
/-! Helper lemmas for C06 (core Lean only). -/
namespace SppModel.Reduce
open SppModel SppModel.Plan

/-! ## Applying in-order writes to a zeroed output -/

theorem applySet_pre (f : Nat → Int) (m : Nat) (pre : List Int) :
    applySet (pre ++ List.replicate m 0) ((List.range' pre.length m).map (fun j => (j, f j)))
      = pre ++ (List.range' pre.length m).map f := by
  induction m generalizing pre with
  | zero => simp [applySet]
  | succ m ih =>
    have ih' := ih (pre ++ [f pre.length])
    simp only [applySet, List.length_append, List.length_cons, List.length_nil, Nat.zero_add,
      List.append_assoc, List.cons_append, List.nil_append] at ih'
    simp only [applySet, List.range'_succ, List.map_cons, List.foldl_cons, List.replicate_succ]
    rw [List.set_append_right _ _ (Nat.le_refl _), Nat.sub_self, List.set_cons_zero]
    exact ih'

theorem applyAdd_pre (f : Nat → Int) (m : Nat) (pre : List Int) :
    applyAdd (pre ++ List.replicate m 0) ((List.range' pre.length m).map (fun j => (j, f j)))
      = pre ++ (List.range' pre.length m).map f := by
  induction m generalizing pre with
  | zero => simp [applyAdd]
  | succ m ih =>
    have ih' := ih (pre ++ [f pre.length])
    simp only [applyAdd, List.length_append, List.length_cons, List.length_nil, Nat.zero_add,
      List.append_assoc, List.cons_append, List.nil_append] at ih'
    simp only [applyAdd, List.range'_succ, List.map_cons, List.foldl_cons, List.replicate_succ]
    rw [List.set_append_right _ _ (Nat.le_refl _), Nat.sub_self, List.set_cons_zero]
    have hz : (pre ++ (0 : Int) :: List.replicate m 0).getD pre.length 0 = 0 := by
      simp [List.getD_eq_getElem?_getD]
    rw [hz, Int.zero_add]
    exact ih'

/-! ## The per-block index maps concatenate to one range -/

/-- `m` consecutive blocks of `st` cells, block `i` starting at `i*st` -/
theorem block_chain {β} (st : Nat) (H : Nat → β) (m j : Nat) :
    (List.range' j m).flatMap (fun i => (List.range st).map (fun t => H (i * st + t)))
      = (List.range' (j * st) (m * st)).map H := by
  induction m generalizing j with
  | zero => simp
  | succ m ih =>
    rw [List.range'_succ, List.flatMap_cons, ih (j + 1)]
    have e1 : (List.range st).map (fun t => H (j * st + t)) = (List.range' (j * st) st).map H := by
      rw [List.range'_eq_map_range, List.map_map]; rfl
    have e2 : (j + 1) * st = j * st + st := by rw [Nat.add_mul]; omega
    have e3 : (m + 1) * st = st + m * st := by rw [Nat.add_mul]; omega
    rw [e1, e2, ← List.map_append, range'_append', e3]

/-- The kernel index arithmetic over an accepted plan: every block contributes
    its cells after the leading `k`, at output index `ii*m + t`, where `m` is the
    multiplier the caller uses — it only has to equal the plan's stride when the
    plan has more than one block.  The result is one cell per output index in order. -/
theorem expected_flatMap {β} (g s n k m : Nat) (h : Accepted g n k)
    (hm : geff g n ≠ n → m = geff g n - k) (F : Nat → Nat → β) :
    (expected g s n k).flatMap
        (fun b => (List.range (b.len - k)).map (fun t => F (b.ii * m + t) (b.off + t)))
      = (List.range (n - k)).map (fun j => F j (s + j)) := by
  obtain ⟨hk, hl⟩ := h
  have A := arith_of g n k hk hl
  have hn : n ≠ 0 := by have := Nat.min_le_left n g; unfold geff at hk; omega
  by_cases hs : geff g n = n
  · have h1 := nreads_single g n k hs
    have h2 := lastread_single g n k hs
    unfold expected
    simp [h1, h2, hn]
  · have hm' := hm hs
    subst hm'
    unfold expected
    simp only
    rw [List.flatMap_append, List.flatMap_map]
    simp only
    have hfun : (fun i => (List.range (geff g n - k)).map
          (fun t => F (i * (geff g n - k) + t) (s + i * (geff g n - k) + t)))
        = (fun i => (List.range (geff g n - k)).map
          (fun t => (fun j => F j (s + j)) (i * (geff g n - k) + t))) := by
      funext i; simp only [Nat.add_assoc]
    rw [hfun, block_chain (geff g n - k) (fun j => F j (s + j)) (nreads g n k) 0]
    have ht := A.total
    have hlast := A.hlast
    rw [List.range_eq_range', Nat.zero_mul]
    by_cases hz : lastread g n k = 0
    · simp only [hz, ne_eq, not_true_eq_false, ↓reduceIte, List.flatMap_nil, List.append_nil]
      have : nreads g n k * (geff g n - k) = n - k := by omega
      rw [this]
    · simp only [hz, ne_eq, not_false_eq_true, ↓reduceIte, List.flatMap_cons, List.flatMap_nil,
        List.append_nil]
      have e1 : (List.range (lastread g n k - k)).map
            (fun t => F (nreads g n k * (geff g n - k) + t) (s + nreads g n k * (geff g n - k) + t))
          = (List.range' (0 + nreads g n k * (geff g n - k)) (lastread g n k - k)).map
              (fun j => F j (s + j)) := by
        rw [List.range'_eq_map_range, List.map_map]
        apply List.map_congr_left
        intro t _
        simp only [Function.comp, Nat.zero_add, Nat.add_assoc]
      rw [e1, ← List.map_append, range'_append']
      have : nreads g n k * (geff g n - k) + (lastread g n k - k) = n - k := by omega
      rw [this]

/-! ## Plans of the reductions -/

/-- the plan of the `k = 0` reductions always completes -/
theorem blocksOf_zero (g s n N : Nat) (hg : 0 < g) (hn : 0 < n) (hr : s + n ≤ N) :
    blocksOf g s n 0 N = .ok (expected g s n 0) := by
  have hA : Accepted g n 0 := half_accepted g n 0 hn hg (by omega)
  simp [blocksOf, accepted_run g s n 0 N hA hr]

theorem accepted_zero (g n : Nat) (hg : 0 < g) (hn : 0 < n) : Accepted g n 0 :=
  half_accepted g n 0 hn hg (by omega)

/-- the multiplier `g` of the `ii*gulp` index is the plan's stride whenever there is more than one block -/
theorem mult_zero (g n : Nat) : geff g n ≠ n → g = geff g n - 0 := by
  unfold geff; omega

/-- the dedispersion plan (`gulp = max (2*md) g`, `skipback = md`) is always accepted -/
theorem accepted_dedisp (g n md : Nat) (hmd : md < n) (hg : 0 < g) :
    Accepted (max (2 * md) g) n md := by
  by_cases hs : geff (max (2 * md) g) n = n
  · refine ⟨by omega, ?_⟩
    rw [lastread_single _ n md hs]; omega
  · apply half_accepted _ n md (by omega) (by omega)
    unfold geff at hs; omega

theorem mult_dedisp (g n md : Nat) :
    geff (max (2 * md) g) n ≠ n → max (2 * md) g - md = geff (max (2 * md) g) n - md := by
  unfold geff; omega

theorem blocksOf_dedisp (g s n md N : Nat) (hmd : md < n) (hg : 0 < g) (hr : s + n ≤ N) :
    blocksOf (max (2 * md) g) s n md N = .ok (expected (max (2 * md) g) s n md) := by
  simp [blocksOf, accepted_run _ s n md N (accepted_dedisp g n md hmd hg) hr]

/-! ## Sums -/

theorem sum_flatMap_int {α} (l : List α) (f : α → List Int) :
    (l.flatMap f).sum = (l.map (fun a => (f a).sum)).sum := by
  induction l with
  | nil => simp
  | cons a l ih => simp [List.flatMap_cons, ih]

end SppModel.Reduce

import SppModel.Model.Stream
/-! Helper lemmas for C02 (core Lean only): the multi-file reader refines the
    flat byte-array model. -/
namespace SppModel.Stream
open SppModel

variable {α : Type}

/-- invariant: an open file, positioned inside its data section (end inclusive) -/
def Inv (fs : Files α) (st : St) : Prop :=
  st.ifile < fs.length ∧ hdrlen fs st.ifile ≤ st.raw ∧
  st.raw ≤ hdrlen fs st.ifile + (fs[st.ifile]?.map (·.data.length)).getD 0

/-- abstraction: position in the flat data stream -/
def abs (fs : Files α) (st : St) : Nat := cum fs st.ifile + (st.raw - hdrlen fs st.ifile)

/-! ### `cum`, `total`, `flat`, `hdrlen` -/

@[simp] theorem cum_zero (fs : Files α) : cum fs 0 = 0 := by simp [cum]

@[simp] theorem cum_nil (i : Nat) : cum ([] : Files α) i = 0 := by simp [cum]

theorem cum_cons_succ (f : File α) (fs : Files α) (i : Nat) :
    cum (f :: fs) (i + 1) = f.data.length + cum fs i := by
  simp [cum]

theorem total_cons (f : File α) (fs : Files α) : total (f :: fs) = f.data.length + total fs := by
  simp [total, cum_cons_succ]

@[simp] theorem total_nil : total ([] : Files α) = 0 := by simp [total]

theorem flat_cons (f : File α) (fs : Files α) : flat (f :: fs) = f.data ++ flat fs := by
  simp [flat]

@[simp] theorem flat_nil : flat ([] : Files α) = [] := by simp [flat]

theorem hdrlen_of_lt (fs : Files α) (i : Nat) (h : i < fs.length) :
    hdrlen fs i = fs[i].hdr.length := by
  simp [hdrlen, List.getElem?_eq_getElem h]

theorem total_eq_flat_length' (fs : Files α) : total fs = (flat fs).length := by
  induction fs with
  | nil => simp
  | cons f fs ih => rw [total_cons, flat_cons, List.length_append, ih]

/-- `cum` advances by the data length of the file stepped over -/
theorem cum_succ (fs : Files α) (i : Nat) (h : i < fs.length) :
    cum fs (i + 1) = cum fs i + fs[i].data.length := by
  induction fs generalizing i with
  | nil => simp at h
  | cons f fs ih =>
    cases i with
    | zero => simp [cum_cons_succ]
    | succ i =>
      have h' : i < fs.length := by simpa using h
      rw [cum_cons_succ, cum_cons_succ, ih i h']
      simp only [List.getElem_cons_succ]
      omega

theorem cum_le_total (fs : Files α) (i : Nat) : cum fs i ≤ total fs := by
  induction fs generalizing i with
  | nil => simp
  | cons f fs ih =>
    cases i with
    | zero => simp
    | succ i => rw [cum_cons_succ, total_cons]; have := ih i; omega

theorem cum_le_flat (fs : Files α) (i : Nat) : cum fs i ≤ (flat fs).length := by
  rw [← total_eq_flat_length']; exact cum_le_total fs i

/-- the flat stream from the start of file `i` is that file's data followed by
    the flat stream from the start of file `i+1` -/
theorem flat_drop_cum (fs : Files α) (i : Nat) (h : i < fs.length) :
    (flat fs).drop (cum fs i) = fs[i].data ++ (flat fs).drop (cum fs (i + 1)) := by
  induction fs generalizing i with
  | nil => simp at h
  | cons f fs ih =>
    cases i with
    | zero =>
      rw [cum_cons_succ, flat_cons]
      simp [List.drop_append]
    | succ i =>
      have h' : i < fs.length := by simpa using h
      rw [cum_cons_succ, cum_cons_succ, flat_cons]
      have e1 : ∀ k, (f.data ++ flat fs).drop (f.data.length + k) = (flat fs).drop k := by
        intro k
        rw [List.drop_append, List.drop_of_length_le (by omega)]
        simp
      rw [e1, e1, ih i h']
      simp

/-- the flat stream from offset `k` inside file `i` -/
theorem flat_drop_in (fs : Files α) (i k : Nat) (h : i < fs.length) (hk : k ≤ fs[i].data.length) :
    (flat fs).drop (cum fs i + k) = fs[i].data.drop k ++ (flat fs).drop (cum fs (i + 1)) := by
  rw [← List.drop_drop, flat_drop_cum fs i h, List.drop_append_of_le_length hk]

/-- a slice of `content` past the header is a slice of `data` -/
theorem content_drop (f : File α) (raw : Nat) (h : f.hdr.length ≤ raw) :
    f.content.drop raw = f.data.drop (raw - f.hdr.length) := by
  rw [File.content, List.drop_append, List.drop_of_length_le h]
  simp

theorem content_length (f : File α) : f.content.length = f.hdr.length + f.data.length := by
  simp [File.content]

/-! ### the invariant -/

theorem Inv_iff (fs : Files α) (st : St) (h : st.ifile < fs.length) :
    Inv fs st ↔ fs[st.ifile].hdr.length ≤ st.raw ∧
      st.raw ≤ fs[st.ifile].hdr.length + fs[st.ifile].data.length := by
  simp [Inv, h, hdrlen_of_lt fs _ h]

theorem Inv.lt {fs : Files α} {st : St} (h : Inv fs st) : st.ifile < fs.length := h.1

theorem abs_le_flat (fs : Files α) (st : St) (h : Inv fs st) : abs fs st ≤ (flat fs).length := by
  have hl := h.lt
  have h2 := (Inv_iff fs st hl).1 h
  have h3 := cum_succ fs st.ifile hl
  have h4 := cum_le_flat fs (st.ifile + 1)
  rw [abs, hdrlen_of_lt fs _ hl]
  omega

theorem curPos_eq_abs' (fs : Files α) (st : St) (h : Inv fs st) : curPos fs st = (abs fs st : Int) := by
  have h2 := h.2.1
  rw [curPos, abs]
  omega

/-! ### `locate` / `seekSet` -/

theorem locate_spec (fs : Files α) (i o : Nat) (h : o < total fs) :
    ∃ j r, ∃ hj : j < fs.length, locate fs i o = some (i + j, r) ∧
      r < fs[j].data.length ∧ cum fs j + r = o := by
  induction fs generalizing i o with
  | nil => simp at h
  | cons f fs ih =>
    rw [total_cons] at h
    by_cases hlt : o < f.data.length
    · exact ⟨0, o, by simp, by simp [locate, hlt], by simpa using hlt, by simp⟩
    · obtain ⟨j, r, hj, hloc, hr, hc⟩ := ih (i + 1) (o - f.data.length) (by omega)
      refine ⟨j + 1, r, by simpa using hj, ?_, by simpa using hr, ?_⟩
      · simp only [locate, hlt, if_false]
        rw [hloc]; congr 2; omega
      · rw [cum_cons_succ]; omega

theorem seekSet_ok' (fs : Files α) (o : Int) (h0 : 0 ≤ o) (h1 : o < (total fs : Int)) :
    ∃ st', seekSet fs o = .ok st' ∧ Inv fs st' ∧ abs fs st' = o.toNat := by
  obtain ⟨j, r, hj, hloc, hr, hc⟩ := locate_spec fs 0 o.toNat (by omega)
  refine ⟨⟨j, hdrlen fs j + r⟩, ?_, ?_, ?_⟩
  · have hn : ¬ (o < 0 ∨ o ≥ (total fs : Int)) := by omega
    simp only [seekSet, hn, if_false, hloc, Nat.zero_add]
  · rw [Inv_iff fs _ hj]
    simp only [hdrlen_of_lt fs j hj]
    omega
  · simp only [abs]
    omega

theorem seekSet_rejects' (fs : Files α) (o : Int) (h : o < 0 ∨ o ≥ (total fs : Int)) :
    seekSet fs o = .error .valueError := by
  simp only [seekSet, h, if_true]

/-! ### the read loop -/

/-- generalized read loop: arbitrary accumulator, any sufficient fuel -/
theorem readLoop_gen (fs : Files α) (fuel : Nat) (st : St) (b : Nat) (acc : List α)
    (h : Inv fs st) (hf : fs.length - st.ifile ≤ fuel) :
    (readLoop fs fuel st b acc).1 = acc ++ ((flat fs).drop (abs fs st)).take b ∧
    Inv fs (readLoop fs fuel st b acc).2.1 ∧
    abs fs (readLoop fs fuel st b acc).2.1 = min (abs fs st + b) (flat fs).length ∧
    (readLoop fs fuel st b acc).2.2 = b - min b ((flat fs).length - abs fs st) := by
  induction fuel generalizing st b acc with
  | zero => have := h.lt; omega
  | succ fuel ih =>
    have hl := h.lt
    obtain ⟨hlo, hhi⟩ := (Inv_iff fs st hl).1 h
    have hcs := cum_succ fs st.ifile hl
    have hcf := cum_le_flat fs (st.ifile + 1)
    have habs : abs fs st = cum fs st.ifile + (st.raw - fs[st.ifile].hdr.length) := by
      rw [abs, hdrlen_of_lt fs _ hl]
    have hdrop := flat_drop_in fs st.ifile (st.raw - fs[st.ifile].hdr.length) hl (by omega)
    have hcl := content_length fs[st.ifile]
    have hcd := content_drop fs[st.ifile] st.raw hlo
    rw [readLoop, List.getElem?_eq_getElem hl]
    simp only []
    rw [habs, hdrop, hcd, hcl]
    have hD : (fs[st.ifile].data.drop (st.raw - fs[st.ifile].hdr.length)).length
        = fs[st.ifile].hdr.length + fs[st.ifile].data.length - st.raw := by
      rw [List.length_drop]; omega
    rw [← hD]
    generalize fs[st.ifile].data.drop (st.raw - fs[st.ifile].hdr.length) = D at hD hdrop ⊢
    have htt : List.take (min b D.length) D = List.take b D := by
      rw [← List.take_take, List.take_length]
    rw [htt, List.take_append]
    have hst' : ∀ g, abs fs ⟨st.ifile, st.raw + g⟩ = abs fs st + g := by
      intro g; simp only [abs]; rw [hdrlen_of_lt fs _ hl]; omega
    have hInv' : ∀ g, g ≤ D.length → Inv fs ⟨st.ifile, st.raw + g⟩ := by
      intro g hg
      refine (Inv_iff fs ⟨st.ifile, st.raw + g⟩ hl).2 ⟨?_, ?_⟩ <;> dsimp only <;> omega
    by_cases hb : b - min b D.length = 0
    · rw [if_pos hb]
      refine ⟨?_, hInv' _ (by omega), ?_, ?_⟩
      · have : b - D.length = 0 := by omega
        simp [this]
      · simp only [hst']; omega
      · simp only []; omega
    · rw [if_neg hb]
      by_cases hn : st.ifile + 1 < fs.length
      · rw [if_pos hn]
        have hI2 : Inv fs ⟨st.ifile + 1, hdrlen fs (st.ifile + 1)⟩ := by
          refine ⟨hn, Nat.le_refl _, ?_⟩; simp only []; omega
        have ha2 : abs fs ⟨st.ifile + 1, hdrlen fs (st.ifile + 1)⟩ = cum fs (st.ifile + 1) := by
          simp [abs]
        obtain ⟨e1, e2, e3, e4⟩ := ih ⟨st.ifile + 1, hdrlen fs (st.ifile + 1)⟩
          (b - min b D.length) (acc ++ List.take b D) hI2 (by simp only []; omega)
        rw [ha2] at e1 e3 e4
        refine ⟨?_, e2, ?_, ?_⟩
        · rw [e1, List.append_assoc]
          have : b - min b D.length = b - D.length := by omega
          rw [this]
        · rw [e3]; omega
        · rw [e4]; omega
      · rw [if_neg hn]
        have hlast : cum fs (st.ifile + 1) = (flat fs).length := by
          have : st.ifile + 1 = fs.length := by omega
          rw [this, ← total_eq_flat_length']; rfl
        refine ⟨?_, hInv' _ (by omega), ?_, ?_⟩
        · simp only []
          rw [hlast, List.drop_length]; simp
        · simp only [hst']; omega
        · simp only []; omega

/-! ### per-operation refinement -/

theorem seekSet_cases (fs : Files α) (t : Int) :
    (seekSet fs t = .error .valueError ∧ (t < 0 ∨ t ≥ ((flat fs).length : Int))) ∨
    (∃ st', seekSet fs t = .ok st' ∧ Inv fs st' ∧ t = (abs fs st' : Int) ∧
      ¬ (t < 0 ∨ t ≥ ((flat fs).length : Int))) := by
  rw [← total_eq_flat_length']
  by_cases h : t < 0 ∨ t ≥ (total fs : Int)
  · exact .inl ⟨seekSet_rejects' fs t h, h⟩
  · obtain ⟨st', e, hi, ha⟩ := seekSet_ok' fs t (by omega) (by omega)
    exact .inr ⟨st', e, hi, by omega, h⟩

theorem step_seek_refines (fs : Files α) (st : St) (hI : Inv fs st) (o : Int) (w : Nat) :
    (step fs st (.seek o w)).1 = (specStep (flat fs) ⟨abs fs st⟩ (.seek o w)).1 ∧
    Inv fs (step fs st (.seek o w)).2 ∧
    (specStep (flat fs) ⟨abs fs st⟩ (.seek o w)).2.pos = (abs fs (step fs st (.seek o w)).2 : Int) := by
  by_cases h0 : w = 0
  · subst h0
    simp only [step, seek, specStep, if_true, true_or]
    rcases seekSet_cases fs o with ⟨e, h⟩ | ⟨st', e, hi, ha, h⟩
    · rw [e, if_pos h]; exact ⟨rfl, hI, rfl⟩
    · rw [e, if_neg h]; exact ⟨rfl, hi, ha⟩
  · by_cases h1 : w = 1
    · subst h1
      simp only [step, seek, specStep, if_true, if_false, or_true, h0, curPos_eq_abs' fs st hI]
      rcases seekSet_cases fs (o + abs fs st) with ⟨e, h⟩ | ⟨st', e, hi, ha, h⟩
      · rw [e, if_pos h]; exact ⟨rfl, hI, rfl⟩
      · rw [e, if_neg h]; exact ⟨rfl, hi, ha⟩
    · simp only [step, seek, specStep, h0, h1, if_false, or_self]
      exact ⟨trivial, hI, trivial⟩

theorem step_cread_refines (fs : Files α) (st : St) (hI : Inv fs st) (B : Nat) :
    (step fs st (.cread B)).1 = (specStep (flat fs) ⟨abs fs st⟩ (.cread B)).1 ∧
    Inv fs (step fs st (.cread B)).2 ∧
    (specStep (flat fs) ⟨abs fs st⟩ (.cread B)).2.pos = (abs fs (step fs st (.cread B)).2 : Int) := by
  obtain ⟨e1, e2, e3, e4⟩ := readLoop_gen fs fs.length st B [] hI (by omega)
  have hle := abs_le_flat fs st hI
  simp only [step, cread, specStep, Int.toNat_natCast]
  generalize readLoop fs fs.length st B [] = r at e1 e2 e3 e4 ⊢
  obtain ⟨acc, st', rem⟩ := r
  dsimp only at e1 e2 e3 e4 ⊢
  rw [List.nil_append] at e1
  subst e1
  by_cases hB : abs fs st + B ≤ (flat fs).length
  · have hr : rem = 0 := by omega
    rw [if_pos hr, if_pos hB]
    exact ⟨rfl, e2, by dsimp only; omega⟩
  · have hr : ¬ rem = 0 := by omega
    rw [if_neg hr, if_neg hB]
    exact ⟨rfl, e2, by dsimp only; omega⟩

theorem step_creadinto_refines (fs : Files α) (st : St) (hI : Inv fs st) (B : Nat) :
    (step fs st (.creadinto B)).1 = (specStep (flat fs) ⟨abs fs st⟩ (.creadinto B)).1 ∧
    Inv fs (step fs st (.creadinto B)).2 ∧
    (specStep (flat fs) ⟨abs fs st⟩ (.creadinto B)).2.pos
      = (abs fs (step fs st (.creadinto B)).2 : Int) := by
  obtain ⟨e1, e2, e3, _⟩ := readLoop_gen fs fs.length st B [] hI (by omega)
  simp only [step, creadinto, specStep, Int.toNat_natCast]
  generalize readLoop fs fs.length st B [] = r at e1 e2 e3 ⊢
  obtain ⟨acc, st', rem⟩ := r
  dsimp only at e1 e2 e3 ⊢
  rw [List.nil_append] at e1
  subst e1
  exact ⟨rfl, e2, by rw [e3]⟩

/-- a counted read that fits returns exactly the flat slice -/
theorem cread_ok (fs : Files α) (st : St) (hI : Inv fs st) (B : Nat)
    (hB : abs fs st + B ≤ (flat fs).length) :
    (cread fs B st).1 = .ok (((flat fs).drop (abs fs st)).take B) := by
  obtain ⟨e1, _, _, e4⟩ := readLoop_gen fs fs.length st B [] hI (by omega)
  simp only [cread]
  generalize readLoop fs fs.length st B [] = r at e1 e4 ⊢
  obtain ⟨acc, st', rem⟩ := r
  dsimp only at e1 e4 ⊢
  rw [List.nil_append] at e1
  subst e1
  have hr : rem = 0 := by omega
  rw [if_pos hr]

/-- concrete three-file stream used by the `example`s in `Props/C02`:
    the middle file has a header but an EMPTY data section -/
def exFiles : Files Nat :=
  [⟨[100, 101], [1, 2, 3]⟩, ⟨[200], []⟩, ⟨[300, 301, 302], [4, 5]⟩]

end SppModel.Stream


import SppModel.Model.Transform
import SppModel.Props.C06
import Mathlib.Tactic.Ring
import Mathlib.Tactic.FieldSimp
import Mathlib.Algebra.BigOperators.Group.List.Basic
import Mathlib.Algebra.Order.Field.Rat
/-! Helper lemmas for C07. -/
namespace SppModel.Transform
open SppModel SppModel.Plan SppModel.Reduce

/-! ## Row-local streaming: the blocks' rows concatenate to the rows of the range -/

/-- per-block rows of an accepted `k = 0` plan, laid end to end -/
theorem expected_flatMap_rows {β} (g s n : Nat) (hg : 0 < g) (hn : 0 < n) (F : Nat → β) :
    (expected g s n 0).flatMap (fun b => (List.range b.len).map (fun t => F (b.off + t)))
      = (List.range n).map (fun j => F (s + j)) := by
  have h := expected_flatMap g s n 0 g (accepted_zero g n hg hn) (mult_zero g n) (fun _ p => F p)
  simpa using h

/-! ## Decimation: whole groups of `tf` samples per block -/

/-- Like `expected_flatMap`, but every block contributes one cell per FULL group of
    `tf` samples it holds.  When the plan has more than one block the full-block
    length must be a multiple of `tf`; then block boundaries are group boundaries
    and the groups of all blocks are the groups of the whole range, in order. -/
theorem expected_flatMap_groups {β} (G s n tf : Nat) (htf : 0 < tf) (h : Accepted G n 0)
    (hd : geff G n ≠ n → tf ∣ geff G n) (F : Nat → β) :
    (expected G s n 0).flatMap (fun b => (List.range (b.len / tf)).map (fun i => F (b.off + i * tf)))
      = (List.range (n / tf)).map (fun i => F (s + i * tf)) := by
  obtain ⟨hk, hl⟩ := h
  have A := arith_of G n 0 hk hl
  have hn : n ≠ 0 := by have := Nat.min_le_left n G; unfold geff at hk; omega
  by_cases hs : geff G n = n
  · have h1 := nreads_single G n 0 hs
    have h2 := lastread_single G n 0 hs
    unfold expected
    simp [h1, h2, hn]
  · obtain ⟨q, hq⟩ := hd hs
    have hq' : geff G n = q * tf := by rw [hq, Nat.mul_comm]
    have ht := A.total
    unfold expected
    simp only [Nat.sub_zero]
    rw [hq'] at ht ⊢
    rw [List.flatMap_append, List.flatMap_map]
    simp only [Nat.mul_div_cancel _ htf]
    have hfun : (fun i => (List.range q).map (fun t => F (s + i * (q * tf) + t * tf)))
        = (fun i => (List.range q).map (fun t => (fun j => F (s + j * tf)) (i * q + t))) := by
      funext i
      apply List.map_congr_left
      intro t _
      simp only
      congr 1
      rw [Nat.add_mul, Nat.mul_assoc, Nat.add_assoc]
    rw [hfun, block_chain q (fun j => F (s + j * tf)) (nreads G n 0) 0]
    rw [List.range_eq_range' (n := n / tf), Nat.zero_mul]
    have ht' : n = lastread G n 0 + (nreads G n 0 * q) * tf := by
      rw [Nat.mul_assoc]; simp only [Nat.sub_zero] at ht; omega
    have hdiv : n / tf = nreads G n 0 * q + lastread G n 0 / tf := by
      conv => lhs; rw [ht']
      rw [Nat.add_mul_div_right _ _ htf, Nat.add_comm]
    by_cases hz : lastread G n 0 = 0
    · simp only [hz, ne_eq, not_true_eq_false, ↓reduceIte, List.flatMap_nil, List.append_nil]
      rw [hdiv, hz, Nat.zero_div, Nat.add_zero]
    · simp only [hz, ne_eq, not_false_eq_true, ↓reduceIte, List.flatMap_cons, List.flatMap_nil,
        List.append_nil]
      have e1 : (List.range (lastread G n 0 / tf)).map
            (fun t => F (s + nreads G n 0 * (q * tf) + t * tf))
          = (List.range' (0 + nreads G n 0 * q) (lastread G n 0 / tf)).map
              (fun j => F (s + j * tf)) := by
        rw [List.range'_eq_map_range, List.map_map]
        apply List.map_congr_left
        intro t _
        simp only [Function.comp, Nat.zero_add]
        congr 1
        rw [Nat.add_mul, Nat.mul_assoc, Nat.add_assoc]
      rw [e1, ← List.map_append, range'_append', hdiv]

theorem roundUp_ge (g tf : Nat) (htf : 0 < tf) : g ≤ roundUp g tf := by
  unfold roundUp
  have h1 := Nat.div_add_mod (g + tf - 1) tf
  have h2 := Nat.mod_lt (g + tf - 1) htf
  rw [Nat.mul_comm] at h1
  omega

theorem roundUp_dvd (g tf : Nat) : tf ∣ roundUp g tf := ⟨(g + tf - 1) / tf, Nat.mul_comm _ _⟩

theorem roundUp_pos (g tf : Nat) (htf : 0 < tf) (hg : 0 < g) : 0 < roundUp g tf :=
  Nat.lt_of_lt_of_le hg (roundUp_ge g tf htf)

/-- the full-block length of the decimation plan is a multiple of `tf` whenever there is more than one block -/
theorem geff_roundUp_dvd (g tf n : Nat) : geff (roundUp g tf) n ≠ n → tf ∣ geff (roundUp g tf) n := by
  intro h
  have : geff (roundUp g tf) n = roundUp g tf := by unfold geff at *; omega
  rw [this]; exact roundUp_dvd g tf

/-! ## Zero-DM: exact sums over ℚ -/

theorem sum_range_getD (l : List Rat) : ((List.range l.length).map (fun c => l.getD c 0)).sum = l.sum := by
  induction l with
  | nil => simp
  | cons a l ih =>
    rw [List.length_cons, List.range_succ_eq_map, List.map_cons, List.map_map, List.sum_cons, List.sum_cons]
    have : ((fun c => (a :: l).getD c 0) ∘ Nat.succ) = fun c => l.getD c 0 := by
      funext c; simp
    rw [this, ih]; simp

theorem sum_zerodm_terms (L : List Nat) (f b : Nat → Rat) (z tot : Rat) :
    (L.map (fun c => f c - z * (b c / tot) + b c)).sum
      = (L.map f).sum - z * ((L.map b).sum / tot) + (L.map b).sum := by
  induction L with
  | nil => simp
  | cons a L ih =>
    simp only [List.map_cons, List.sum_cons, ih]
    ring

end SppModel.Transform

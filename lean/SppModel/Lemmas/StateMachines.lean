import SppModel.Model.VecPrims
import SppModel.Model.Rfi
import SppModel.Model.FoldedCube
import SppModel.Lemmas.FoldedCube
/-! Helper lemmas for the source tie of the translated state machines (`Props/Tie/StateMachines.lean`):
the element-wise vector primitives (`Model/VecPrims.lean`) against the index-wise hand models
`Model/Rfi.lean` and `Model/FoldedCube.lean`.  Nothing here mentions the generated definitions. -/
namespace SppModel.SMLemmas
open SppModel SppModel.Dedisp

/-! ## Boolean masks -/

theorem lor_length (a b : List Bool) (h : b.length = a.length) : (Vec.lor a b).length = a.length := by
  simp [Vec.lor, h]

/-- `a | b` on equal lengths is the index-wise `orM` of the model -/
theorem lor_eq_orM (a b : List Bool) (h : b.length = a.length) : Vec.lor a b = Rfi.orM a b := by
  apply List.ext_getElem
  · simp [Vec.lor, Rfi.orM, h]
  · intro i h1 h2
    have ha : i < a.length := by simpa [Rfi.orM] using h2
    have hb : i < b.length := by omega
    simp [Vec.lor, Rfi.orM, List.getD_eq_getElem?_getD, ha, hb]

/-- a vector of the right length is its own index-wise copy -/
theorem range_getD_eq {α} (l : List α) (n : Nat) (d : α) (h : l.length = n) :
    (List.range n).map (fun i => l.getD i d) = l := by
  subst h; exact map_range_getD l d

/-- one closed range as a mask -/
theorem land_ge_le (fr : List Rat) (a b : Rat) :
    Vec.land (Vec.geS fr a) (Vec.leS fr b) = fr.map (fun f => decide (a ≤ f) && decide (f ≤ b)) := by
  simp only [Vec.land, Vec.geS, Vec.leS, ge_iff_le]
  induction fr with
  | nil => rfl
  | cons x xs ih => simp only [List.map_cons, List.zipWith_cons_cons, ih]

theorem lor_map_map {α} (l : List α) (p q : α → Bool) :
    Vec.lor (l.map p) (l.map q) = l.map (fun x => p x || q x) := by
  simp only [Vec.lor]
  induction l with
  | nil => rfl
  | cons x xs ih => simp only [List.map_cons, List.zipWith_cons_cons, ih]

/-- OR-ing range masks one after the other onto a pointwise mask -/
theorem foldl_lor_ranges (fr : List Rat) (ranges : List (Rat × Rat)) (p : Rat → Bool) :
    ranges.foldl (fun acc r => Vec.lor acc (Vec.land (Vec.geS fr r.1) (Vec.leS fr r.2))) (fr.map p)
      = fr.map (fun f => p f || ranges.any (fun r => decide (r.1 ≤ f) && decide (f ≤ r.2))) := by
  induction ranges generalizing p with
  | nil => simp
  | cons r rs ih =>
    rw [List.foldl_cons, land_ge_le, lor_map_map, ih]
    apply List.map_congr_left
    intro f _
    simp only [List.any_cons, Bool.or_assoc]

/-- the loop of `apply_mask` computes `Rfi.userMask` -/
theorem foldl_lor_userMask (fr : List Rat) (ranges : List (Rat × Rat)) (n : Nat) (h : fr.length = n) :
    ranges.foldl (fun acc r => Vec.lor acc (Vec.land (Vec.geS fr r.1) (Vec.leS fr r.2))) (Vec.zerosB n)
      = Rfi.userMask fr ranges := by
  have hz : Vec.zerosB n = fr.map (fun _ => false) := by
    subst h; simp [Vec.zerosB]
  rw [hz, foldl_lor_ranges]
  simp [Rfi.userMask]

theorem userMask_length (fr : List Rat) (ranges : List (Rat × Rat)) :
    (Rfi.userMask fr ranges).length = fr.length := by simp [Rfi.userMask]

/-- `Rfi.applyMask` in vector form -/
theorem applyMask_vec (st : Rfi.St) (fr : List Rat) (ranges : List (Rat × Rat))
    (h : fr.length = st.chan.length) :
    Rfi.applyMask st fr ranges
      = ⟨Vec.lor st.chan (Rfi.userMask fr ranges), Rfi.userMask fr ranges, st.stats, st.custom⟩ := by
  have hu : (Rfi.userMask fr ranges).length = st.chan.length := by rw [userMask_length, h]
  simp only [Rfi.applyMask, range_getD_eq _ _ false hu, lor_eq_orM _ _ hu]

theorem lor3_eq (n : Nat) (a b c : List Bool) (ha : a.length = n) (hb : b.length = n) (hc : c.length = n) :
    (List.range n).map (fun i => a.getD i false || b.getD i false || c.getD i false)
      = Vec.lor (Vec.lor a b) c := by
  apply List.ext_getElem
  · simp [Vec.lor, ha, hb, hc]
  · intro i h1 h2
    have hi : i < n := by simpa using h1
    simp [Vec.lor, List.getD_eq_getElem?_getD, ha, hb, hc, hi]

/-- `Rfi.applyMethod` in vector form -/
theorem applyMethod_vec (st : Rfi.St) (a b c : List Bool) (ha : a.length = st.chan.length)
    (hb : b.length = st.chan.length) (hc : c.length = st.chan.length) :
    Rfi.applyMethod st a b c
      = ⟨Vec.lor st.chan (Vec.lor (Vec.lor a b) c), st.user, Vec.lor (Vec.lor a b) c, st.custom⟩ := by
  have hl : (Vec.lor (Vec.lor a b) c).length = st.chan.length := by simp [Vec.lor, ha, hb, hc]
  simp only [Rfi.applyMethod, lor3_eq _ a b c ha hb hc, lor_eq_orM _ _ hl]

/-- `Rfi.applyFuncn` in vector form -/
theorem applyFuncn_vec (st : Rfi.St) (f : List Bool → List Bool) (h : (f st.chan).length = st.chan.length) :
    Rfi.applyFuncn st f = ⟨Vec.lor st.chan (f st.chan), st.user, st.stats, f st.chan⟩ := by
  simp only [Rfi.applyFuncn, range_getD_eq _ _ false h, lor_eq_orM _ _ h]

/-! ## integer drift vectors -/

theorem negI_getD (v : List Int) (b : Nat) : (Vec.negI v).getD b 0 = 0 - v.getD b 0 := by
  simp only [Vec.negI, List.getD_eq_getElem?_getD, List.getElem?_map]
  cases v[b]? <;> simp

theorem subI_getD (a c : List Int) (b : Nat) (ha : b < a.length) (hc : b < c.length) :
    (Vec.subI a c).getD b 0 = a.getD b 0 - c.getD b 0 := by
  simp [Vec.subI, List.getD_eq_getElem?_getD, ha, hc]

theorem zerosLikeI_eq (v : List Int) : Vec.zerosLikeI v = List.replicate v.length 0 := by
  simp only [Vec.zerosLikeI]
  induction v with
  | nil => rfl
  | cons x xs ih => simp only [List.map_cons, List.length_cons, List.replicate_succ, ih]

theorem norm_of_length (n : Nat) (d : List Int) (h : d.length = n) : FoldedCube.norm n d = d :=
  range_getD_eq d n 0 h

theorem norm_replicate_zero (n : Nat) : FoldedCube.norm n (List.replicate n 0) = List.replicate n 0 :=
  norm_of_length n _ (by simp)

/-! ## the cube loops -/

open FoldedCube in
/-- on a well-shaped cube the double loop visits every cell -/
theorem mapCube_shaped {data : List (List (List Int))} {ni nb : Nat} (hs : Shaped data ni nb)
    (f : Nat → Nat → List Int → List Int) :
    Vec.mapCube ni nb data f
      = (List.range data.length).map (fun i =>
          (List.range (data.getD i []).length).map (fun j => f i j ((data.getD i []).getD j []))) := by
  simp only [Vec.mapCube]
  apply List.map_congr_left
  intro i hi
  have hi' : i < ni := by rw [← hs.1]; exact List.mem_range.mp hi
  rw [if_pos hi']
  apply List.map_congr_left
  intro j hj
  have hj' : j < nb := by rw [← hs.row i hi']; exact List.mem_range.mp hj
  rw [if_pos hj']

open FoldedCube in
theorem mapCube_shaped_preserved {data : List (List (List Int))} {ni nb : Nat} (hs : Shaped data ni nb)
    (f : Nat → Nat → List Int → List Int) : Shaped (Vec.mapCube ni nb data f) ni nb := by
  rw [mapCube_shaped hs]
  refine ⟨by simp [hs.1], ?_⟩
  intro sub hsub
  simp only [List.mem_map, List.mem_range] at hsub
  obtain ⟨i, hi, rfl⟩ := hsub
  rw [List.length_map, List.length_range]
  exact hs.row i (by rw [← hs.1]; exact hi)

theorem map_eq_range_map {α β} (l : List α) (d : α) (g : α → β) :
    l.map g = (List.range l.length).map (fun i => g (l.getD i d)) := by
  conv_lhs => rw [← map_range_getD l d]
  rw [List.map_map]
  rfl

theorem st_eq_mk (s : FoldedCube.St) {a : List (List (List Int))} {b c : List Int} (h1 : s.data = a)
    (h2 : s.fph = b) (h3 : s.tph = c) : s = ⟨a, b, c⟩ := by
  cases s; simp_all

open FoldedCube in
/-- `updateDm` as the translated double loop: the per-sub-band roll amounts `bin` only have to agree with
    `drift - fph` on the sub-bands that exist -/
theorem updateDm_data {st : St} {ni nb : Nat} (hs : Shaped st.data ni nb) (hf : st.fph.length = nb)
    (drift bin : List Int) (hbin : ∀ b, b < nb → bin.getD b 0 = drift.getD b 0 - st.fph.getD b 0) :
    (updateDm st drift).data
      = Vec.mapCube ni nb st.data (fun _ b p => Vec.roll p (-(bin.getD b 0))) := by
  rw [mapCube_shaped hs]
  simp only [updateDm]
  rw [map_eq_range_map st.data []]
  apply List.map_congr_left
  intro i hi
  have hi' : i < ni := by rw [← hs.1]; exact List.mem_range.mp hi
  apply List.map_congr_left
  intro b hb
  have hb' : b < nb := by rw [← hs.row i hi']; exact List.mem_range.mp hb
  rw [getD_map_range _ _ _ _ (by rw [hf]; exact hb'), hbin b hb']
  rfl

open FoldedCube in
theorem updatePeriod_data {st : St} {ni nb : Nat} (hs : Shaped st.data ni nb) (ht : st.tph.length = ni)
    (drift bin : List Int) (hbin : ∀ i, i < ni → bin.getD i 0 = drift.getD i 0 - st.tph.getD i 0) :
    (updatePeriod st drift).data
      = Vec.mapCube ni nb st.data (fun i _ p => Vec.roll p (-(bin.getD i 0))) := by
  rw [mapCube_shaped hs]
  simp only [updatePeriod]
  apply List.map_congr_left
  intro i hi
  have hi' : i < ni := by rw [← hs.1]; exact List.mem_range.mp hi
  rw [map_eq_range_map (st.data.getD i []) []]
  apply List.map_congr_left
  intro b _
  rw [getD_map_range _ _ _ _ (by rw [ht]; exact hi'), hbin i hi']
  rfl

open FoldedCube in
/-- `updateDm` to a non-zero target, vector form -/
theorem updateDm_vec {st : St} {ni nb : Nat} (hs : Shaped st.data ni nb) (hf : st.fph.length = nb)
    (drift : List Int) (hd : drift.length = nb) :
    updateDm st drift
      = ⟨Vec.mapCube ni nb st.data (fun _ b p => Vec.roll p (-((Vec.subI drift st.fph).getD b 0))),
         drift, st.tph⟩ := by
  have h1 := updateDm_data hs hf drift (Vec.subI drift st.fph)
    (fun b hb => subI_getD _ _ b (by omega) (by omega))
  have h2 : (updateDm st drift).fph = drift := by
    simp only [updateDm, hf]; exact range_getD_eq drift nb 0 hd
  have h3 : (updateDm st drift).tph = st.tph := rfl
  exact st_eq_mk _ h1 h2 h3

open FoldedCube in
/-- `updateDm` back to the folding DM (zero drift), vector form -/
theorem updateDm_zero_vec {st : St} {ni nb : Nat} (hs : Shaped st.data ni nb) (hf : st.fph.length = nb) :
    updateDm st (List.replicate nb 0)
      = ⟨Vec.mapCube ni nb st.data (fun _ b p => Vec.roll p (-((Vec.negI st.fph).getD b 0))),
         Vec.zerosLikeI st.fph, st.tph⟩ := by
  have h1 := updateDm_data hs hf (List.replicate nb 0) (Vec.negI st.fph)
    (fun b _ => by rw [negI_getD, getD_replicate_zero])
  have h2 : (updateDm st (List.replicate nb 0)).fph = Vec.zerosLikeI st.fph := by
    rw [zerosLikeI_eq, hf]
    simp only [updateDm, hf]; exact range_getD_eq _ nb 0 (by simp)
  have h3 : (updateDm st (List.replicate nb 0)).tph = st.tph := rfl
  exact st_eq_mk _ h1 h2 h3

open FoldedCube in
theorem updatePeriod_vec {st : St} {ni nb : Nat} (hs : Shaped st.data ni nb) (ht : st.tph.length = ni)
    (drift : List Int) (hd : drift.length = ni) :
    updatePeriod st drift
      = ⟨Vec.mapCube ni nb st.data (fun i _ p => Vec.roll p (-((Vec.subI drift st.tph).getD i 0))),
         st.fph, drift⟩ := by
  have h1 := updatePeriod_data (nb := nb) hs ht drift (Vec.subI drift st.tph)
    (fun b hb => subI_getD _ _ b (by omega) (by omega))
  have h2 : (updatePeriod st drift).tph = drift := by
    simp only [updatePeriod, ht]; exact range_getD_eq drift ni 0 hd
  have h3 : (updatePeriod st drift).fph = st.fph := rfl
  exact st_eq_mk _ h1 h3 h2

open FoldedCube in
theorem updatePeriod_zero_vec {st : St} {ni nb : Nat} (hs : Shaped st.data ni nb) (ht : st.tph.length = ni) :
    updatePeriod st (List.replicate ni 0)
      = ⟨Vec.mapCube ni nb st.data (fun i _ p => Vec.roll p (-((Vec.negI st.tph).getD i 0))),
         st.fph, Vec.zerosLikeI st.tph⟩ := by
  have h1 := updatePeriod_data (nb := nb) hs ht (List.replicate ni 0) (Vec.negI st.tph)
    (fun b _ => by rw [negI_getD, getD_replicate_zero])
  have h2 : (updatePeriod st (List.replicate ni 0)).tph = Vec.zerosLikeI st.tph := by
    rw [zerosLikeI_eq, ht]
    simp only [updatePeriod, ht]; exact range_getD_eq _ ni 0 (by simp)
  have h3 : (updatePeriod st (List.replicate ni 0)).fph = st.fph := rfl
  exact st_eq_mk _ h1 h3 h2

/-! ## histories -/

open FoldedCube in
/-- an empty cube stays empty -/
theorem run_data_nil (st : St) (h : st.data = []) (ops : List Op) : (run st ops).data = [] := by
  induction ops generalizing st with
  | nil => exact h
  | cons op ops ih =>
    apply ih
    cases op with
    | dm d => simp [step, updateDm, h]
    | period d => simp [step, updatePeriod, h]

open FoldedCube in
/-- the freshly folded state is the model's `init` as soon as the cube has a sub-integration -/
theorem fresh_eq_init {data : List (List (List Int))} {ni nb : Nat} (hs : Shaped data ni nb) (hpos : 0 < ni) :
    (⟨data, List.replicate nb 0, List.replicate ni 0⟩ : St) = init data := by
  simp only [init, hs.1, hs.row 0 hpos]

open FoldedCube in
theorem lastDm_cons_dm (nb : Nat) (d : List Int) (ops : List Op) (acc : List Int) :
    (Op.dm d :: ops).foldl (fun acc op => match op with
      | .dm d => norm nb d
      | .period _ => acc) acc
    = ops.foldl (fun acc op => match op with
      | .dm d => norm nb d
      | .period _ => acc) (norm nb d) := rfl

end SppModel.SMLemmas

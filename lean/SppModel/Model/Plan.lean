import SppModel.Model.Basic
/-!
C01 model: the block plan of `FilReader.read_plan` (`readers.py`) and the
read loop, over an abstract sample stream of `N` samples (the multi-file
stream is shown to behave as one flat stream in C02).

Positions and lengths are in *samples*; the byte arithmetic is exact because
the property fixes `nchans*nbits % 8 = 0` (`samp_stride` is an integer).
-/
namespace SppModel.Plan
open SppModel

/-- a block as the read loop sees it: index, first sample, number of samples -/
structure Blk where
  ii : Nat
  off : Nat
  len : Nat
deriving Repr, DecidableEq

/-- plan entry `(ii, block, skip)` in samples -/
abbrev Entry := Nat × Nat × Nat

/-- effective gulp -/
def geff (g n : Nat) : Nat := min n g

/-- `nreads` after the `lastread < skipback` correction -/
def nreads (g n k : Nat) : Nat :=
  let st := geff g n - k
  if geff g n = n then 0          -- the whole range fits in a single read
  else if n % st < k then n / st - 1 else n / st

/-- `lastread` after the correction -/
def lastread (g n k : Nat) : Nat :=
  let st := geff g n - k
  if geff g n = n then n
  else if n % st < k then n - (n / st - 1) * st else n % st

/-- The plan arithmetic (`readers.py`: gulp=min(nsamps,gulp); skipback>=gulp rejected;
    a range that fits in one gulp is a single block; otherwise divmod; correction;
    a corrected last block shorter than skipback is rejected). -/
def planBlocks (g n k : Nat) : Except Err (List Entry) :=
  if k ≥ geff g n then .error .valueError
  else if lastread g n k < k then .error .valueError
  else
    let full : List Entry := (List.range (nreads g n k)).map (fun i => (i, geff g n, k))
    .ok (if lastread g n k ≠ 0 then full ++ [(nreads g n k, lastread g n k, 0)] else full)

/-- Outcome of iterating the generator: the blocks yielded, then possibly an error. -/
structure Run where
  yielded : List Blk
  err : Option Err
deriving Repr, DecidableEq

/-- The read loop from stream position `p`: a short read (fewer samples left
    than the block needs) raises; after a full block the position moves back by
    `skip` (relative seek, range-checked like `_seek_set`), then the block is yielded. -/
def runLoop (N : Nat) : Nat → List Entry → Run
  | _, [] => ⟨[], none⟩
  | p, (ii, len, skip) :: rest =>
    if p + len > N then ⟨[], some .valueError⟩
    else if skip ≠ 0 ∧ (p + len < skip ∨ p + len - skip ≥ N) then ⟨[], some .valueError⟩
    else
      let r := runLoop N (p + len - skip) rest
      ⟨⟨ii, p, len⟩ :: r.yielded, r.err⟩

/-- `read_plan(gulp=g, start=s, nsamps=n, skipback=k)` on a stream of `N` samples. -/
def runPlan (g s n k N : Nat) : Run :=
  if k ≥ geff g n then ⟨[], some .valueError⟩          -- skipback >= gulp
  else if s ≥ N then ⟨[], some .valueError⟩            -- seek(start) out of bounds
  else match planBlocks g n k with
    | .error e => ⟨[], some e⟩
    | .ok bl => runLoop N s bl

/-- Samples delivered by a block list under the property's reading: first block
    whole, every later block minus its leading `k` samples. -/
def delivered (k : Nat) : List Blk → List Nat
  | [] => []
  | b :: bs => List.range' b.off b.len ++ (bs.map (fun c => List.range' (c.off + k) (c.len - k))).flatten

end SppModel.Plan

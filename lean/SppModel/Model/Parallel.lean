import SppModel.Model.Basic
/-!
C19 model: a parallel loop (`numba.prange`) as a family of iteration bodies over
a shared memory, with declared write footprints.  Schedules are orders in which
whole iterations run (any partition into per-thread chunks, any interleaving of
iterations, any thread count is such an order).
-/
namespace SppModel.Parallel

abbrev Mem := Nat → Int

/-- run the iterations in the given order -/
def run (body : Nat → Mem → Mem) (order : List Nat) (m : Mem) : Mem :=
  order.foldl (fun m i => body i m) m

/-- the sequential loop `for i in range(n)` -/
def runSeq (body : Nat → Mem → Mem) (n : Nat) (m : Mem) : Mem := run body (List.range n) m

/-- a thread schedule: iteration space split into per-thread chunks which are then
    executed in the order `sched` picks them (flattened) -/
def runChunks (body : Nat → Mem → Mem) (chunks : List (List Nat)) (m : Mem) : Mem :=
  run body chunks.flatten m

/-- write footprint of iteration `i` for a store-index family `idx i j` (j = inner loop indices) -/
def footprint {ι : Type} (idx : Nat → ι → Nat) (i : Nat) (a : Nat) : Prop := ∃ j, idx i j = a

end SppModel.Parallel

import SppModel.Model.Basic
/-!
C12 model: the bookkeeping around the FFT library — zero padding to the
transform length, circular vs linear convolution, the output slice `[:n1+n2-1]`,
correlation as convolution with the reversed series, and the lengths of
`rfft`/`irfft`.  Values are integers (exact); the transform pair itself is
rocket-fft's and enters the theorems only through the circular-convolution
identity it implements.
-/
namespace SppModel.Conv
open SppModel

/-- zero-pad (or truncate) to length `N` (`np.fft.rfft(x, N)`) -/
def padTo (N : Nat) (x : List Int) : List Int := (List.range N).map (fun i => x.getD i 0)

/-- full linear convolution: `out[k] = Σ_j a[j] * b[k-j]`, length `n1+n2-1` -/
def lconv (a b : List Int) : List Int :=
  if a.length = 0 ∨ b.length = 0 then []
  else (List.range (a.length + b.length - 1)).map (fun k =>
    ((List.range a.length).map (fun j => if j ≤ k then a.getD j 0 * b.getD (k - j) 0 else 0)).sum)

/-- circular convolution of two length-`N` sequences: what `irfft(rfft(x)*rfft(y), N)` computes -/
def cconv (N : Nat) (x y : List Int) : List Int :=
  (List.range N).map (fun k =>
    ((List.range N).map (fun j => x.getD j 0 * y.getD ((k + N - j) % N) 0)).sum)

/-- `kernels.fftconvolve`: pad both to a good size `N ≥ n1+n2-1`, circular product, slice `[:n1+n2-1]` -/
def fftconvolve (N : Nat) (a b : List Int) : List Int :=
  if a.length = 0 ∨ b.length = 0 then []
  else (cconv N (padTo N a) (padTo N b)).take (a.length + b.length - 1)

/-- `TimeSeries.correlate(other)`: `fftconvolve(self, conj(other[::-1]))` -/
def correlate (N : Nat) (a b : List Int) : List Int := fftconvolve N a b.reverse

/-- number of bins of a real FFT of length `N` -/
def rfftBins (N : Nat) : Nat := N / 2 + 1
/-- default output length of `irfft` given `m` bins -/
def irfftDefaultLen (m : Nat) : Nat := 2 * (m - 1)
/-- the length `FourierSeries.ifft` asks for: the header's `nsamples` when it is consistent with the number of bins -/
def ifftLen (m nsamples : Nat) : Nat := if nsamples / 2 + 1 = m then nsamples else irfftDefaultLen m

end SppModel.Conv

import SppModel.Model.Samples
import SppModel.Generated.WriterOps
/-!
C20 model: an output file as a byte list and the operations a streaming writer
performs on it (`io/fileio.py:FileWriter`, `header.py:prep_outfile`, the loops of
`base.py`).  Every streaming writer is `open('w+'); write(header); cwrite(block)…`.
-/
namespace SppModel.Writer
open SppModel

abbrev Bytes := List Nat

inductive Op where
  | openTrunc                  -- io.FileIO(path, 'w+')
  | write (bs : Bytes)         -- file_obj.write(header bytes)
  | cwrite (bs : Bytes)        -- packed/converted block .tofile(file_obj)
  | close
deriving Repr

/-- effect of one operation on the bytes on disk (unbuffered FileIO: nothing is held back) -/
def apply (file : Bytes) : Op → Bytes
  | .openTrunc => []
  | .write bs => file ++ bs
  | .cwrite bs => file ++ bs
  | .close => file

/-- bytes on disk after each operation -/
def states (file : Bytes) : List Op → List Bytes
  | [] => []
  | op :: ops => apply file op :: states (apply file op) ops

/-- the operation sequence of every streaming writer: header first, then one `cwrite` per block in time order -/
def writerOps (hdr : Bytes) (blocks : List Bytes) : List Op :=
  .openTrunc :: .write hdr :: (blocks.map .cwrite ++ [.close])

def final (hdr : Bytes) (blocks : List Bytes) : Bytes := hdr ++ blocks.flatten

/-- executable form of the truncation claim, used by the driver on real output files:
    every cut `L ∈ [hdrlen, len]` reads back as a prefix of the full read -/
def truncationOk (file : Bytes) (hdrlen L : Nat) : Bool :=
  match Samples.readFil file, Samples.readFil (file.take L) with
  | .ok (nb, nc, _, vs), .ok (nb', nc', k, vs') =>
    nb == nb' && nc == nc' && k == Samples.inferNsamples (L - hdrlen) nb nc && vs' == vs.take (k * nc)
  | _, _ => false

end SppModel.Writer

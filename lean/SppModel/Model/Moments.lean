import SppModel.Model.Basic
/-!
C10 model: one-pass channel moments (`core/kernels.py:596-741`, `core/stats.py:721-936`)
over exact rationals.  Float32 rounding is outside the model.
-/
namespace SppModel.Moments
open SppModel

/-- per-channel accumulator (the `moments_dtype` record without min/max) -/
structure Mom where
  n : Nat
  m1 : Rat
  m2 : Rat
  m3 : Rat
  m4 : Rat
deriving Repr, DecidableEq

def Mom.zero : Mom := ⟨0, 0, 0, 0, 0⟩

/-- `update_moments(val, m1, m2, m3, m4, n)` -/
def update (s : Mom) (x : Rat) : Mom :=
  let n : Nat := s.n + 1
  let delta := x - s.m1
  let delta_n := delta / n
  let delta_n2 := delta_n * delta_n
  let term := delta * delta_n * (n - 1 : Rat)
  { n := n
    m1 := s.m1 + delta_n
    m4 := s.m4 + term * delta_n2 * ((n : Rat) * n - 3 * n + 3) + 6 * delta_n2 * s.m2 - 4 * delta_n * s.m3
    m3 := s.m3 + term * delta_n * ((n : Rat) - 2) - 3 * delta_n * s.m2
    m2 := s.m2 + term }

/-- `update_moments_basic` (only n, m1, m2; the higher sums stay untouched) -/
def updateBasic (s : Mom) (x : Rat) : Mom :=
  let n : Nat := s.n + 1
  let delta := x - s.m1
  let delta_n := delta / n
  { s with n := n, m1 := s.m1 + delta_n, m2 := s.m2 + delta * delta_n * ((n : Rat) - 1) }

/-- one chunk of one channel through `compute_online_moments` -/
def push (s : Mom) (chunk : List Rat) : Mom := chunk.foldl update s
def pushBasic (s : Mom) (chunk : List Rat) : Mom := chunk.foldl updateBasic s

/-- a stream fed as consecutive chunks -/
def pushChunks (s : Mom) (chunks : List (List Rat)) : Mom := chunks.foldl push s

/-- `add_online_moments(a, b, c)` (Pébay pairwise merge) -/
def merge (a b : Mom) : Mom :=
  let c : Rat := (a.n + b.n : Nat)
  let an : Rat := a.n
  let bn : Rat := b.n
  let d := b.m1 - a.m1
  { n := a.n + b.n
    m1 := (an * a.m1 + bn * b.m1) / c
    m2 := a.m2 + b.m2 + d * d * an * bn / c
    m3 := a.m3 + b.m3 + d * (d * d) * an * bn * (an - bn) / (c ^ 2) + 3 * d * (an * b.m2 - bn * a.m2) / c
    m4 := a.m4 + b.m4 + (d * d) * (d * d) * an * bn * (an ^ 2 - an * bn + bn ^ 2) / (c ^ 3)
          + 6 * (d * d) * (an ^ 2 * b.m2 + bn ^ 2 * a.m2) / (c ^ 2) + 4 * d * (an * b.m3 - bn * a.m3) / c }

/-! ### min / max with the `startflag` initialisation -/

structure MinMax where
  mn : Rat
  mx : Rat
deriving Repr, DecidableEq

/-- one chunk: on the first chunk (`startflag = 0`) min/max start from the chunk's first sample -/
def pushMM (flag : Nat) (s : MinMax) (chunk : List Rat) : MinMax :=
  let s0 : MinMax := if flag = 0 then (match chunk with | [] => s | x :: _ => ⟨x, x⟩) else s
  chunk.foldl (fun a x => ⟨min a.mn x, max a.mx x⟩) s0

/-- chunks are pushed with `start_index = 0, 1, 2, …` (block index), as `compute_stats` does -/
def pushChunksMM : Nat → MinMax → List (List Rat) → MinMax
  | _, s, [] => s
  | i, s, c :: cs => pushChunksMM (i + 1) (pushMM i s c) cs

/-! ### derived statistics (`ChannelStats` properties), `nsamps` = samples pushed -/

def var (s : Mom) (nsamps : Nat) : Rat := s.m2 / nsamps
/-- skewness squared (the model avoids the irrational `m2^1.5`), with the `m2 != 0` guard -/
def skewSq (s : Mom) (nsamps : Nat) : Rat := if s.m2 = 0 then 0 else s.m3 * s.m3 / (s.m2 * s.m2 * s.m2) * nsamps
def skewSign (s : Mom) : Int := if s.m2 = 0 then 0 else if s.m3 > 0 then 1 else if s.m3 < 0 then -1 else 0
def kurt (s : Mom) (nsamps : Nat) : Rat := (if s.m2 = 0 then 0 else s.m4 / (s.m2 * s.m2)) * nsamps - 3

/-! ### two-pass definitions -/

def mean (xs : List Rat) : Rat := xs.sum / xs.length
/-- k-th central sum about `c` -/
def S (k : Nat) (xs : List Rat) (c : Rat) : Rat := (xs.map (fun x => (x - c) ^ k)).sum

def stats (xs : List Rat) : Mom := ⟨xs.length, mean xs, S 2 xs (mean xs), S 3 xs (mean xs), S 4 xs (mean xs)⟩

end SppModel.Moments

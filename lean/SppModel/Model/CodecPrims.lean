import SppModel.Generated.Tables
/-!
Primitives the translated SIGPROC codec (`Generated/SigprocCodec.lean`, from `io/sigproc.py`) is written in:
byte strings, Python header values, insertion-ordered dicts, an open binary file, `struct` for the formats of the
key table, and the two loop forms.  Hand-written and fixed; nothing here is derived from the source except the key
table itself (`Generated.Tables.headerKeys`).

Assumed behaviour of CPython recorded here (trusted base): `struct.pack/unpack/calcsize` for `I` (u32 LE), `d`
(8 bytes, carried uninterpreted), `b` (i8); `file.read(n)` returns at most `n` bytes; `str.encode()/bytes.decode()`
are the identity on header strings (ASCII); dicts keep insertion order.
-/
namespace SppModel.CodecPrims

abbrev Bytes := List Nat

/-- a Python value held by a parsed header: int, float (the 8 little-endian IEEE bytes, never interpreted), str -/
inductive PyVal where
  | int (z : Int)
  | dbl (bs : Bytes)
  | str (s : Bytes)
deriving Repr, DecidableEq, Inhabited

abbrev Dict := List (Bytes × PyVal)

def ascii (s : String) : Bytes := s.toList.map (·.toNat)

/-- `d[k] = v`: replace in place, else append (dicts keep insertion order) -/
def Dict.set (d : Dict) (k : Bytes) (v : PyVal) : Dict :=
  if d.any (fun kv => kv.1 == k) then d.map (fun kv => if kv.1 == k then (k, v) else kv) else d ++ [(k, v)]

/-- `d[k]` -/
def Dict.get (d : Dict) (k : Bytes) : Except String PyVal :=
  match d.find? (fun kv => kv.1 == k) with
  | some kv => .ok kv.2
  | none => .error "KeyError"

/-- the module-level `header_keys` table (regenerated from the source: `Generated.Tables`) -/
def headerKeys : List (Bytes × String) := Generated.Tables.headerKeys.map (fun kf => (ascii kf.1, kf.2))

/-- `header_keys[k]` -/
def keyFmt (k : Bytes) : Except String String :=
  match headerKeys.find? (fun kf => kf.1 == k) with
  | some kf => .ok kf.2
  | none => .error "KeyError"

/-- `k in header_keys` -/
def isKey (k : Bytes) : Bool := headerKeys.any (fun kf => kf.1 == k)

/-- an open binary file -/
structure Fp where
  data : Bytes
  pos : Nat
deriving Repr

/-- `fp.read(n)`: at most `n` bytes, short at the end of the file -/
def Fp.read (fp : Fp) (n : Nat) : Bytes × Fp :=
  let b := (fp.data.drop fp.pos).take n
  (b, { fp with pos := fp.pos + b.length })

/-- `fp.write(bs)` at the current position (overwrites, extends at the end) -/
def Fp.write (fp : Fp) (bs : Bytes) : Fp :=
  { data := fp.data.take fp.pos ++ bs ++ fp.data.drop (fp.pos + bs.length), pos := fp.pos + bs.length }

def leBytes : Nat → Nat → Bytes
  | 0, _ => []
  | k + 1, n => n % 256 :: leBytes k (n / 256)

def leVal : Bytes → Nat
  | [] => 0
  | b :: r => b + 256 * leVal r

/-- `struct.calcsize(fmt)` for the formats of the key table -/
def calcsize (fmt : String) : Except String Nat :=
  if fmt = "I" then .ok 4 else if fmt = "d" then .ok 8 else if fmt = "b" then .ok 1 else .error "struct.error"

/-- `struct.unpack(fmt, bs)[0]` -/
def structUnpack (fmt : String) (bs : Bytes) : Except String PyVal :=
  if fmt = "I" then (if bs.length = 4 then .ok (.int (leVal bs)) else .error "struct.error")
  else if fmt = "d" then (if bs.length = 8 then .ok (.dbl bs) else .error "struct.error")
  else if fmt = "b" then
    (match bs with
     | [b] => .ok (.int (if b < 128 then (b : Int) else (b : Int) - 256))
     | _ => .error "struct.error")
  else .error "struct.error"

/-- `struct.pack(fmt, v)`; a float handed to `'d'` is carried as its 8 bytes -/
def structPack (fmt : String) (v : PyVal) : Except String Bytes :=
  if fmt = "I" then
    (match v with
     | .int z => if 0 ≤ z ∧ z < 4294967296 then .ok (leBytes 4 z.toNat) else .error "struct.error"
     | _ => .error "struct.error")
  else if fmt = "d" then
    (match v with
     | .dbl bs => .ok bs
     | _ => .error "struct.error")
  else if fmt = "b" then
    (match v with
     | .int z => if -128 ≤ z ∧ z < 128 then .ok [(z % 256).toNat] else .error "struct.error"
     | _ => .error "struct.error")
  else .error "struct.error"

/-- `int(v)` -/
def PyVal.toInt : PyVal → Except String Int
  | .int z => .ok z
  | _ => .error "ValueError"

/-- a value used as a byte count (`fp.read(n)`) -/
def PyVal.asSize : PyVal → Except String Nat
  | .int z => if 0 ≤ z then .ok z.toNat else .error "ValueError"
  | _ => .error "TypeError"

def PyVal.isStr : PyVal → Bool
  | .str _ => true
  | _ => false

/-- the characters of a `str` value (only read where `isinstance(v, str)` holds) -/
def PyVal.strBytes : PyVal → Bytes
  | .str s => s
  | _ => []

/-- `len(v)` -/
def PyVal.len : PyVal → Except String Int
  | .str s => .ok s.length
  | _ => .error "TypeError"

/-- `s.ljust(n)`: padded with blanks to at least `n` characters -/
def ljust (s : Bytes) (n : Int) : Bytes := s ++ List.replicate (n.toNat - s.length) 32

/-- `a // b` on Python ints -/
def floorDiv (a b : Int) : Except String Int :=
  if b = 0 then .error "ZeroDivisionError" else .ok (Int.fdiv a b)

/-- `for k, v in d.items(): …`; `continue` is `.ok s` -/
def forItems {σ : Type} : Dict → σ → (Bytes → PyVal → σ → Except String σ) → Except String σ
  | [], s, _ => .ok s
  | (k, v) :: r, s, body =>
    match body k v s with
    | .error e => .error e
    | .ok s' => forItems r s' body

/-- `while True: … break`: the body answers `(continue?, state)`; `fuel` bounds the iterations -/
def whileFuel {σ : Type} : Nat → σ → (σ → Except String (Bool × σ)) → Except String σ
  | 0, _, _ => .error "fuel"
  | fuel + 1, s, body =>
    match body s with
    | .error e => .error e
    | .ok (false, s') => .ok s'
    | .ok (true, s') => whileFuel fuel s' body

/-- sequencing in `Except` (an explicit combinator rather than `match`, so that generated terms are built from
shared constants only) -/
def bindE {α β : Type} (m : Except String α) (f : α → Except String β) : Except String β :=
  match m with
  | .error e => .error e
  | .ok a => f a

/-- `try: … except <exc>: raise <as_>` -/
def catchAs {α : Type} (m : Except String α) (exc as_ : String) : Except String α :=
  match m with
  | .error e => if e = exc then .error as_ else .error e
  | .ok a => .ok a

/-- `if o is None: … else: …` -/
def optCases {α β : Type} (o : Option α) (n : β) (s : α → β) : β :=
  match o with
  | none => n
  | some a => s a

/-- `int(x)` of a float: truncation towards zero -/
def truncQ (x : Rat) : Int := if x < 0 then -((-x).floor) else x.floor

end SppModel.CodecPrims

import SppModel.Model.Dedisp
/-!
C17 model: `FoldedData.update_dm / update_period` (`foldedcube.py`).
The cube is `[subint][subband]` profiles.  The float maps "target DM → per
sub-band bin drift" and "target period → per sub-integration bin drift"
(relative to the folding values) are not modelled: every operation carries the
drift vector the implementation computed for its target.
-/
namespace SppModel.FoldedCube
open SppModel

structure St where
  data : List (List (List Int))      -- data[isubint][isubband] = profile
  fph : List Int                     -- `_fph_shifts`, per sub-band
  tph : List Int                     -- `_tph_shifts`, per sub-integration
deriving Repr, DecidableEq

def init (data : List (List (List Int))) : St :=
  ⟨data, List.replicate ((data.getD 0 []).length) 0, List.replicate data.length 0⟩

/-- `np.roll(profile, -k)` -/
def rollP (p : List Int) (k : Int) : List Int := Dedisp.rollRow p (-k)

/-- `update_dm`: `bin_drifts = drifts - fph; fph = drifts; roll every profile of sub-band b by -bin_drifts[b]` -/
def updateDm (st : St) (drift : List Int) : St :=
  let nb := st.fph.length
  let bin : List Int := (List.range nb).map (fun b => drift.getD b 0 - st.fph.getD b 0)
  { data := st.data.map (fun sub => (List.range sub.length).map (fun b => rollP (sub.getD b []) (bin.getD b 0)))
    fph := (List.range nb).map (fun b => drift.getD b 0)
    tph := st.tph }

/-- `update_period`: the same along sub-integrations -/
def updatePeriod (st : St) (drift : List Int) : St :=
  let ni := st.tph.length
  let bin : List Int := (List.range ni).map (fun i => drift.getD i 0 - st.tph.getD i 0)
  { data := (List.range st.data.length).map (fun i => (st.data.getD i []).map (fun p => rollP p (bin.getD i 0)))
    fph := st.fph
    tph := (List.range ni).map (fun i => drift.getD i 0) }

inductive Op where
  | dm (drift : List Int)
  | period (drift : List Int)
deriving Repr

def step (st : St) : Op → St
  | .dm d => updateDm st d
  | .period d => updatePeriod st d

def run (st : St) (ops : List Op) : St := ops.foldl step st

/-- all states along a history (for the driver) -/
def trace (st : St) : List Op → List St
  | [] => []
  | op :: ops => step st op :: trace (step st op) ops

end SppModel.FoldedCube

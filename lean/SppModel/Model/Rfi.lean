import SppModel.Model.Transform
/-!
C16 model: composition of the RFI channel masks (`core/rfi.py:188-250`,
`base.py:clean_rfi`).  Masks are Boolean vectors; which channels are statistical
outliers is decided by the z-score thresholding of C15 and enters as the three
per-statistic masks.
-/
namespace SppModel.Rfi
open SppModel

abbrev Mask := List Bool

def orM (a b : Mask) : Mask := (List.range a.length).map (fun i => a.getD i false || b.getD i false)

structure St where
  chan : Mask
  user : Mask
  stats : Mask
  custom : Mask
deriving Repr, DecidableEq

def init (n : Nat) : St :=
  let z := List.replicate n false
  ⟨z, z, z, z⟩

/-- channels whose centre frequency lies in one of the closed ranges -/
def userMask (freqs : List Rat) (ranges : List (Rat × Rat)) : Mask :=
  freqs.map (fun f => ranges.any (fun r => decide (r.1 ≤ f) && decide (f ≤ r.2)))

/-- `RFIMask.apply_mask` -/
def applyMask (st : St) (freqs : List Rat) (ranges : List (Rat × Rat)) : St :=
  let u := (List.range st.chan.length).map (fun i => (userMask freqs ranges).getD i false)
  { st with user := u, chan := orM st.chan u }

/-- `|z| > threshold` -/
def thresholdMask (z : List Rat) (thr : Rat) : Mask := z.map (fun v => decide ((if v < 0 then -v else v) > thr))

/-- `RFIMask.apply_method`: OR of the variance, skewness and kurtosis outlier masks -/
def applyMethod (st : St) (mvar mskew mkurt : Mask) : St :=
  let s := (List.range st.chan.length).map (fun i => mvar.getD i false || mskew.getD i false || mkurt.getD i false)
  { st with stats := s, chan := orM st.chan s }

/-- `RFIMask.apply_funcn`: the custom function sees the current mask and returns channels to add -/
def applyFuncn (st : St) (f : Mask → Mask) : St :=
  let c := (List.range st.chan.length).map (fun i => (f st.chan).getD i false)
  { st with custom := c, chan := orM st.chan c }

inductive Op where
  | mask (freqs : List Rat) (ranges : List (Rat × Rat))
  | method (mvar mskew mkurt : Mask)
  | funcn (result : Mask)            -- what the custom function returned
deriving Repr

def step (st : St) : Op → St
  | .mask f r => applyMask st f r
  | .method a b c => applyMethod st a b c
  | .funcn c => applyFuncn st (fun _ => c)

def trace (st : St) : List Op → List St
  | [] => []
  | op :: ops => step st op :: trace (step st op) ops

/-- `Filterbank.clean_rfi`: user mask (if given), statistics mask, custom mask (if given), from an empty mask -/
def cleanRfi (n : Nat) (freqs : List Rat) (ranges : Option (List (Rat × Rat))) (mvar mskew mkurt : Mask)
    (custom : Option Mask) : St :=
  let s0 := init n
  let s1 := match ranges with | some r => applyMask s0 freqs r | none => s0
  let s2 := applyMethod s1 mvar mskew mkurt
  match custom with | some c => applyFuncn s2 (fun _ => c) | none => s2

end SppModel.Rfi

import SppModel.Model.Basic
import SppModel.Generated.BitKernels
import SppModel.Generated.Tables
/-!
C03 model: sub-byte packing.

* `field d o byte j` is the *specification* of the j-th unpacked value,
  written independently of the kernels (bit-field definition).
* `Codec` packages a generated per-byte kernel pair; `unpackArr`/`packArr`
  lift them to arrays exactly as the kernels' outer loops do.
* `validate` is the argument-validation decision logic of `bits.unpack/pack`.
-/
namespace SppModel.Bits
open SppModel

inductive Order where | big | little
deriving Repr, DecidableEq

/-- bit-field definition: fields are `d` bits wide, `8/d` per byte;
    `big` = most-significant field first, `little` = least-significant first. -/
def field (d : Nat) (o : Order) (byte j : Nat) : Nat :=
  match o with
  | .big => (byte >>> (d * (8 / d - 1 - j))) &&& (2 ^ d - 1)
  | .little => (byte >>> (d * j)) &&& (2 ^ d - 1)

def unpackSpec (d : Nat) (o : Order) (byte : Nat) : List Nat :=
  (List.range (8 / d)).map (field d o byte)

/-- A per-byte kernel pair (as generated from the source). -/
structure Codec where
  k : Nat                    -- values per byte
  bound : Nat                -- 2^nbits
  unp : Nat → List Nat
  pk : List Nat → Nat

open SppModel.Generated.BitKernels in
def codec (d : Nat) (o : Order) : Option Codec :=
  match d, o with
  | 1, .big => some ⟨8, 2, unpack1_8_big, pack1_8_big⟩
  | 1, .little => some ⟨8, 2, unpack1_8_little, pack1_8_little⟩
  | 2, .big => some ⟨4, 4, unpack2_8_big, pack2_8_big⟩
  | 2, .little => some ⟨4, 4, unpack2_8_little, pack2_8_little⟩
  | 4, .big => some ⟨2, 16, unpack4_8_big, pack4_8_big⟩
  | 4, .little => some ⟨2, 16, unpack4_8_little, pack4_8_little⟩
  | _, _ => none

/-- `for ii in range(array.size): unpacked[ii*k .. ii*k+k) = unp array[ii]` -/
def unpackArr (c : Codec) (bytes : List Nat) : List Nat := bytes.flatMap c.unp

/-- `for ii in range(array.size // k): packed[ii] = pk array[ii*k .. ii*k+k)` -/
def packArr (c : Codec) (vals : List Nat) : List Nat := (chunks c.k vals).map c.pk

/-- Argument validation of `bits.unpack` / `bits.pack` (`bits.py:47-62,101-116`).
    `order` is the first character of the bit-order string, if any. -/
def parseOrder (s : String) : Option Order :=
  match s.toList with
  | 'b' :: _ => some .big
  | 'l' :: _ => some .little
  | _ => none

inductive Dir where | unpack | pack
deriving Repr, DecidableEq

/-- expected size of the caller-supplied output buffer -/
def outSize (dir : Dir) (d insize : Nat) : Nat :=
  match dir with
  | .unpack => insize * (8 / d)
  | .pack => insize / (8 / d)

def validate (dir : Dir) (isU8 : Bool) (d : Nat) (order : String) (insize : Nat)
    (buf : Option Nat) : Except Err (Order × Nat) :=
  if !isU8 then .error .valueError
  else if !(d == 1 || d == 2 || d == 4) then .error .valueError
  else match parseOrder order with
    | none => .error .valueError
    | some o =>
      match buf with
      | none => .ok (o, outSize dir d insize)
      | some m => if m != outSize dir d insize then .error .valueError else .ok (o, m)

/-- full model of `bits.unpack(array, nbits, unpacked?, bitorder)` on uint8 input -/
def unpack (isU8 : Bool) (d : Nat) (order : String) (bytes : List Nat) (buf : Option Nat) :
    Except Err (List Nat) :=
  match validate .unpack isU8 d order bytes.length buf with
  | .error e => .error e
  | .ok (o, _) =>
    match codec d o with
    | none => .error .valueError
    | some c => .ok (unpackArr c bytes)

def pack (isU8 : Bool) (d : Nat) (order : String) (vals : List Nat) (buf : Option Nat) :
    Except Err (List Nat) :=
  match validate .pack isU8 d order vals.length buf with
  | .error e => .error e
  | .ok (o, _) =>
    match codec d o with
    | none => .error .valueError
    | some c => .ok (packArr c vals)

/-- default bit order per depth, read from the generated table -/
def defaultOrder (d : Nat) : Option Order :=
  match (SppModel.Generated.Tables.defaultBitorder.find? (·.1 == d)) with
  | some (_, s) => if s == "big" then some .big else if s == "little" then some .little else none
  | none => none

end SppModel.Bits

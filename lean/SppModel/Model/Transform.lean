import SppModel.Model.Reduce
/-!
C07 model: the streaming file-to-file transforms of `Filterbank` (`base.py`).
Each transform is: blocks from `read_plan` → per-block kernel on the flat
`(nsamps_r × nchans)` block → `cwrite` appends.  The output data section is the
concatenation of the per-block outputs, here as a list of output rows (one per
output time sample, `nchans_out` values each).  Values are integers; the
conversion to the output depth is C04's `cwrite`.
-/
namespace SppModel.Transform
open SppModel SppModel.Plan SppModel.Reduce

/-- row `t` of the stream -/
def row (flat : List Int) (C t : Nat) : List Int := (List.range C).map (fun c => getS flat C t c)

/-- rows of one block -/
def rowsOf (flat : List Int) (C : Nat) (b : Blk) : List (List Int) :=
  (List.range b.len).map (fun t => row flat C (b.off + t))

/-- a transform whose output row depends only on the corresponding input row,
    streamed block by block (plan with no skipback) -/
def streamRowLocal (T : List Int → List Int) (flat : List Int) (C g s n N : Nat) : Except Err (List (List Int)) :=
  match blocksOf g s n 0 N with
  | .error e => .error e
  | .ok bs => .ok (bs.flatMap (fun b => (rowsOf flat C b).map T))

/-- `invert_freq` kernel: each row reversed -/
def invertRow (r : List Int) : List Int := r.reverse
/-- `mask_channels` kernel -/
def maskRow (mask : List Bool) (v : Int) (r : List Int) : List Int :=
  (List.range r.length).map (fun c => if mask.getD c false then v else r.getD c 0)
/-- `data_2d[:, chan]` -/
def chanRow (c : Nat) (r : List Int) : List Int := [r.getD c 0]
/-- `data_2d[:, a : a + per]` -/
def bandRow (a per : Nat) (r : List Int) : List Int := (r.drop a).take per

def invertFreq (flat C g s n N) := streamRowLocal invertRow flat C g s n N
def maskChannels (mask : List Bool) (v : Int) (flat C g s n N) := streamRowLocal (maskRow mask v) flat C g s n N
def extractSamps (flat C g s n N) := streamRowLocal id flat C g s n N
def extractChan (c : Nat) (flat C g s n N) := streamRowLocal (chanRow c) flat C g s n N
def extractBand (a per : Nat) (flat C g s n N) := streamRowLocal (bandRow a per) flat C g s n N

/-- number of files and first channel of each for `extract_bands(chanstart, nchans, chanpersub)` -/
def bandStarts (chanstart nchans per : Nat) : List Nat :=
  (List.range (nchans / per)).map (fun i => chanstart + i * per)

/-! ### decimation -/

/-- `gulp = ceil(gulp / tfactor) * tfactor` -/
def roundUp (g tf : Nat) : Nat := (g + tf - 1) / tf * tf

/-- `downsample_2d_mean_flat(block, tf, ff, nsamps_r, nchans)`: for each output
    cell the SUM of its `tf × ff` inputs (the mean is `sum / (tf*ff)` reduced to the output depth by `cwrite`);
    the incomplete remainder of the block is dropped -/
def downsampleBlock (flat : List Int) (C tf ff : Nat) (b : Blk) : List (List Int) :=
  (List.range (b.len / tf)).map (fun i =>
    (List.range (C / ff)).map (fun j =>
      ((List.range tf).map (fun a =>
        ((List.range ff).map (fun e => getS flat C (b.off + i * tf + a) (j * ff + e))).sum)).sum))

def downsample (flat : List Int) (C tf ff g s n N : Nat) : Except Err (List (List Int)) :=
  if tf = 0 ∨ ff = 0 then .error .other
  else if C % ff ≠ 0 then .error .valueError
  else match blocksOf (roundUp g tf) s n 0 N with
    | .error e => .error e
    | .ok bs => .ok (bs.flatMap (downsampleBlock flat C tf ff))

/-! ### sub-banding -/

/-- one output row of the `subband` kernel: per-sub-band sums of delay-shifted channels -/
def subbandRow (flat : List Int) (C : Nat) (delays : List Nat) (nsub t : Nat) : List Int :=
  (List.range nsub).map (fun sb =>
    ((List.range C).map (fun c =>
      if c / (C / nsub) = sb then getS flat C (t + delays.getD c 0) c else 0)).sum)

/-- `Filterbank.subband`: gulp raised to `2*maxdelay`, skipback `maxdelay`, each block contributes
    `nsamps_r - maxdelay` rows accumulated from a zeroed buffer -/
def subband (flat : List Int) (C : Nat) (delays : List Nat) (nsub g s n N : Nat) : Except Err (List (List Int)) :=
  let md := maxDelay delays
  let G := max (2 * md) g
  if nsub = 0 ∨ C / nsub = 0 then .error .other else
  match blocksOf G s n md N with
  | .error e => .error e
  | .ok bs => .ok (bs.flatMap (fun b => (List.range (b.len - md)).map (fun t => subbandRow flat C delays nsub (b.off + t))))

/-! ### zero-DM removal (exact rationals; the float64 evaluation and the cast are validated to one quantum) -/

def zerodmRow (bpass : List Rat) (r : List Int) : List Rat :=
  let z : Rat := (r.map (fun (x : Int) => ((x : Int) : Rat))).sum
  let tot : Rat := bpass.sum
  (List.range r.length).map (fun c => ((r.getD c 0 : Int) : Rat) - z * (bpass.getD c 0 / tot) + bpass.getD c 0)

end SppModel.Transform

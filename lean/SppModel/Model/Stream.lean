import SppModel.Model.Basic
/-!
C02 model: `FileReader` over a list of SIGPROC files (`io/fileio.py`).

A file is its header bytes followed by its data bytes; the concrete reader
state is `(ifile_cur, file_obj.tell())`.  All quantities are in bytes.
`cread` counts in items of the file dtype; under the stated precondition
(every data section and every position is a whole number of items) reading
`count` items of `w` bytes is reading `count*w` bytes, which is how it is
modelled (`B`).  Note `count_read = min(datalen, count)` in the source never
binds below what `np.fromfile` can deliver, so it does not appear.
-/
namespace SppModel.Stream
open SppModel

structure File (α : Type) where
  hdr : List α
  data : List α
deriving Repr

abbrev Files (α : Type) := List (File α)

/-- concrete reader state: open file index and raw position in that file -/
structure St where
  ifile : Nat
  raw : Nat
deriving Repr, DecidableEq

variable {α : Type}

def File.content (f : File α) : List α := f.hdr ++ f.data

/-- `cumsum_datalens[i-1]`: data bytes before file `i` -/
def cum (fs : Files α) (i : Nat) : Nat := ((fs.take i).map (·.data.length)).sum

def total (fs : Files α) : Nat := cum fs fs.length

/-- the byte-array model of the stream -/
def flat (fs : Files α) : List α := (fs.map (·.data)).flatten

def hdrlen (fs : Files α) (i : Nat) : Nat := (fs[i]?.map (·.hdr.length)).getD 0

/-- initial state: file 0 open at raw position 0 (io.FileIO just opened).
    `FilReader` always seeks before reading. -/
def init : St := ⟨0, 0⟩

/-- `cur_data_pos_stream` (may be negative before the first seek) -/
def curPos (fs : Files α) (st : St) : Int :=
  (st.raw : Int) - (hdrlen fs st.ifile : Int) + (cum fs st.ifile : Int)

/-- `np.where(offset < cumsum)[0][0]` and the offset inside that file -/
def locate : Files α → Nat → Nat → Option (Nat × Nat)
  | [], _, _ => none
  | f :: fs, i, o => if o < f.data.length then some (i, o) else locate fs (i + 1) (o - f.data.length)

/-- `_seek_set(offset)` -/
def seekSet (fs : Files α) (o : Int) : Except Err St :=
  if o < 0 ∨ o ≥ (total fs : Int) then .error .valueError
  else match locate fs 0 o.toNat with
    | none => .error .valueError   -- unreachable when o < total
    | some (i, r) => .ok ⟨i, hdrlen fs i + r⟩

/-- `seek(offset, whence)` -/
def seek (fs : Files α) (o : Int) (whence : Nat) (st : St) : Except Err St :=
  if whence = 0 then seekSet fs o
  else if whence = 1 then seekSet fs (o + curPos fs st)
  else .error .valueError

/-- The common read loop of `cread`/`creadinto`: take what the current file
    has, stop when satisfied, otherwise move to the end of the next file's
    header; stop (with a remainder) when the last file is exhausted. -/
def readLoop (fs : Files α) : Nat → St → Nat → List α → List α × St × Nat
  | 0, st, b, acc => (acc, st, b)
  | fuel + 1, st, b, acc =>
    match fs[st.ifile]? with
    | none => (acc, st, b)
    | some f =>
      let avail := f.content.length - st.raw
      let got := min b avail
      let acc' := acc ++ (f.content.drop st.raw).take got
      let st' : St := ⟨st.ifile, st.raw + got⟩
      if b - got = 0 then (acc', st', 0)
      else if st.ifile + 1 < fs.length then readLoop fs fuel ⟨st.ifile + 1, hdrlen fs (st.ifile + 1)⟩ (b - got) acc'
      else (acc', st', b - got)

/-- `cread` of `B` bytes: all of them or `ValueError` (raised by `_open` past
    the last file; the reader is then left at the end of the last file). -/
def cread (fs : Files α) (B : Nat) (st : St) : Except Err (List α) × St :=
  let (acc, st', rem) := readLoop fs fs.length st B []
  if rem = 0 then (.ok acc, st') else (.error .valueError, st')

/-- `creadinto` a buffer of `B` bytes: returns what exists. -/
def creadinto (fs : Files α) (B : Nat) (st : St) : List α × St :=
  let (acc, st', _) := readLoop fs fs.length st B []
  (acc, st')

/-- `FilReader.read_block(start, nsamps)` at byte level: range check against the
    header's sample count, absolute seek, counted read (`readers.py:105-110`). -/
def readBlock (fs : Files α) (stride nsamples : Nat) (s n : Int) : Except Err (List α) :=
  if s < 0 ∨ s + n > (nsamples : Int) then .error .valueError
  else match seekSet fs (s * stride) with
    | .error e => .error e
    | .ok st =>
      match cread fs (n.toNat * stride) st with
      | (.ok bs, _) => .ok bs
      | (.error e, _) => .error e

inductive Op where
  | seek (o : Int) (whence : Nat)
  | cread (B : Nat)
  | creadinto (B : Nat)
deriving Repr

inductive Out (α : Type) where
  | unit
  | bytes (bs : List α)
  | err (e : Err)
deriving Repr

/-- one operation: output and next state (a failed seek leaves the state unchanged) -/
def step (fs : Files α) (st : St) : Op → Out α × St
  | .seek o w => match seek fs o w st with
    | .ok st' => (.unit, st')
    | .error e => (.err e, st)
  | .cread B => match cread fs B st with
    | (.ok bs, st') => (.bytes bs, st')
    | (.error e, st') => (.err e, st')
  | .creadinto B => let (bs, st') := creadinto fs B st; (.bytes bs, st')

/-- run a history, collecting outputs and the stream position after every op -/
def runOps (fs : Files α) : St → List Op → List (Out α × Int)
  | _, [] => []
  | st, op :: ops =>
    let (o, st') := step fs st op
    (o, curPos fs st') :: runOps fs st' ops

/-! ### The abstract byte-array specification -/

structure Spec where
  pos : Int
deriving Repr, DecidableEq

def specStep (fl : List α) (s : Spec) : Op → Out α × Spec
  | .seek o w =>
    if w = 0 ∨ w = 1 then
      let tgt := if w = 0 then o else o + s.pos
      if tgt < 0 ∨ tgt ≥ (fl.length : Int) then (.err .valueError, s) else (.unit, ⟨tgt⟩)
    else (.err .valueError, s)
  | .cread B =>
    let p := s.pos.toNat
    if p + B ≤ fl.length then (.bytes ((fl.drop p).take B), ⟨(p + B : Nat)⟩)
    else (.err .valueError, ⟨(fl.length : Nat)⟩)
  | .creadinto B =>
    let p := s.pos.toNat
    (.bytes ((fl.drop p).take B), ⟨(min (p + B) fl.length : Nat)⟩)

def specRun (fl : List α) : Spec → List Op → List (Out α × Int)
  | _, [] => []
  | s, op :: ops =>
    let (o, s') := specStep fl s op
    (o, s'.pos) :: specRun fl s' ops

end SppModel.Stream

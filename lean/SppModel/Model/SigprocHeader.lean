import SppModel.Model.Basic
import SppModel.Generated.Tables
/-!
C05 model: the SIGPROC header byte codec (`io/sigproc.py`), in-place edit,
and the Header ⇄ SIGPROC field mapping (`header.py`).

Bytes are `Nat` (< 256 for real data).  A double is 8 opaque bytes: nothing in
the codec interprets it, so "bit-identical" is literal.
-/
namespace SppModel.Sigproc
open SppModel

abbrev Bytes := List Nat

inductive Fmt where | I | d | b | str
deriving Repr, DecidableEq

inductive Val where
  | u32 (n : Nat)          -- struct 'I'
  | f64 (bs : Bytes)       -- struct 'd': the 8 bytes
  | i8 (b : Nat)           -- struct 'b': the byte
  | str (s : Bytes)
deriving Repr, DecidableEq

def Val.fmt : Val → Fmt
  | .u32 _ => .I | .f64 _ => .d | .i8 _ => .b | .str _ => .str

def Val.WF : Val → Prop
  | .u32 n => n < 2 ^ 32
  | .f64 bs => bs.length = 8
  | .i8 _ => True
  | .str s => s.length < 2 ^ 32

def ascii (s : String) : Bytes := s.toList.map (·.toNat)

def fmtOfString (s : String) : Option Fmt :=
  if s == "I" then some .I else if s == "d" then some .d else if s == "b" then some .b
  else if s == "str" then some .str else none

/-- the `header_keys` table (regenerated from the source on every run), as bytes → format -/
def keyTable : List (Bytes × Fmt) :=
  Generated.Tables.headerKeys.filterMap (fun (k, f) => (fmtOfString f).map (fun f => (ascii k, f)))

def keyFmt (k : Bytes) : Option Fmt := (keyTable.find? (·.1 == k)).map (·.2)

/-- `struct.pack("I", n)` little endian -/
def le32 (n : Nat) : Bytes := [n % 256, n / 256 % 256, n / 65536 % 256, n / 16777216 % 256]

/-- `struct.unpack("I", fp.read(4))` -/
def rd32 : Bytes → Option (Nat × Bytes)
  | b0 :: b1 :: b2 :: b3 :: rest => some (b0 + 256 * b1 + 65536 * b2 + 16777216 * b3, rest)
  | _ => none

def encStr (s : Bytes) : Bytes := le32 s.length ++ s

/-- `_read_string` -/
def rdStr (bs : Bytes) : Option (Bytes × Bytes) :=
  match rd32 bs with
  | none => none
  | some (n, rest) => if rest.length < n then none else some (rest.take n, rest.drop n)

def encVal : Val → Bytes
  | .u32 n => le32 n
  | .f64 bs => bs
  | .i8 b => [b]
  | .str s => encStr s

def encodeKey (k : Bytes) (v : Val) : Bytes := encStr k ++ encVal v

def HEADER_START : Bytes := ascii "HEADER_START"
def HEADER_END : Bytes := ascii "HEADER_END"

/-- `encode_header` on a dict whose keys are all in the table (others are skipped) -/
def encodeBody : List (Bytes × Val) → Bytes
  | [] => []
  | (k, v) :: rest => (if (keyFmt k).isSome then encodeKey k v else []) ++ encodeBody rest

def encodeHeader (kvs : List (Bytes × Val)) : Bytes :=
  encStr HEADER_START ++ encodeBody kvs ++ encStr HEADER_END

def rdVal (f : Fmt) (bs : Bytes) : Option (Val × Bytes) :=
  match f with
  | .I => (rd32 bs).map (fun (n, r) => (.u32 n, r))
  | .d => if bs.length < 8 then none else some (.f64 (bs.take 8), bs.drop 8)
  | .b => match bs with | b :: r => some (.i8 b, r) | [] => none
  | .str => (rdStr bs).map (fun (s, r) => (.str s, r))

/-- the key/value loop of `parse_header`; `fuel` bounds the number of entries -/
def parseLoop : Nat → Bytes → Except Err (List (Bytes × Val) × Bytes)
  | 0, _ => .error .other
  | fuel + 1, bs =>
    match rdStr bs with
    | none => .error .other                       -- struct.error: truncated
    | some (k, rest) =>
      if k = HEADER_END then .ok ([], rest)
      else match keyFmt k with
        | none => .error .other                   -- KeyError: unknown key
        | some f =>
          match rdVal f rest with
          | none => .error .other
          | some (v, rest') =>
            match parseLoop fuel rest' with
            | .error e => .error e
            | .ok (kvs, r) => .ok ((k, v) :: kvs, r)

/-- `parse_header`: entries in file order and the header length -/
def parseHeader (bs : Bytes) : Except Err (List (Bytes × Val) × Nat) :=
  match rdStr bs with
  | none => .error .osError                       -- "not in sigproc format... Is file empty?"
  | some (k, rest) =>
    if k ≠ HEADER_START then .error .osError
    else match parseLoop (bs.length + 1) rest with
      | .error e => .error e
      | .ok (kvs, r) => .ok (kvs, bs.length - r.length)

/-! ### in-place edit -/

/-- a Python value handed to `edit_header` -/
inductive EditVal where
  | int (z : Int)
  | flt (bs : Bytes)      -- a float, as the 8 bytes struct.pack('d') produces
  | str (s : Bytes)
deriving Repr

/-- `struct.pack(value_type, value)` / the string branch of `encode_key` -/
def coerce (f : Fmt) (v : EditVal) : Except Err Val :=
  match f, v with
  | .I, .int z => if 0 ≤ z ∧ z < 2 ^ 32 then .ok (.u32 z.toNat) else .error .other
  | .b, .int z => if -128 ≤ z ∧ z < 128 then .ok (.i8 ((z % 256).toNat)) else .error .other
  | .d, .flt bs => .ok (.f64 bs)
  | .str, .str s => .ok (.str s)
  | _, _ => .error .other

/-- dict.update on an association list: replace in place, else append -/
def update (kvs : List (Bytes × Val)) (k : Bytes) (v : Val) : List (Bytes × Val) :=
  if kvs.any (·.1 == k) then kvs.map (fun kv => if kv.1 == k then (k, v) else kv) else kvs ++ [(k, v)]

def SOURCE_NAME : Bytes := ascii "source_name"

/-- `edit_header(file, key, value)`: `.ok file'` or the error with the file untouched. -/
def editHeader (file : Bytes) (key : Bytes) (v : EditVal) : Except Err Bytes :=
  match keyFmt key with
  | none => .error .valueError
  | some f =>
    match parseHeader file with
    | .error e => .error e
    | .ok (kvs, hdrlen) =>
      -- source_name is padded / truncated to the old length (KeyError if there is none)
      let v' : Except Err EditVal :=
        match v with
        | .str s =>
          if key = SOURCE_NAME then
            match kvs.find? (·.1 == SOURCE_NAME) with
            | some (_, .str old) => .ok (.str (s.take old.length ++ List.replicate (old.length - s.length) 32))
            | _ => .error .other
          else .ok v
        | _ => .ok v
      match v' with
      | .error e => .error e
      | .ok v' =>
        match coerce f v' with
        | .error e => .error e
        | .ok val =>
          let newHdr := encodeHeader (update kvs key val)
          if newHdr.length = hdrlen then .ok (newHdr ++ file.drop hdrlen)
          else .error .valueError

/-! ### Header ⇄ SIGPROC field mapping -/

inductive Frame where | topocentric | barycentric | pulsarcentric
deriving Repr, DecidableEq

/-- `to_sigproc`: (pulsarcentric, barycentric) flags -/
def flagsOf : Frame → Nat × Nat
  | .pulsarcentric => (1, 0)
  | .barycentric => (0, 1)
  | .topocentric => (0, 0)

/-- `from_sigproc` -/
def frameOf (pulsar bary : Nat) : Frame :=
  if pulsar ≠ 0 then .pulsarcentric else if bary ≠ 0 then .barycentric else .topocentric

def idOf (table : List (String × Nat)) (name : String) : Nat :=
  ((table.find? (·.1 == name)).map (·.2)).getD 0

def nameOf (table : List (String × Nat)) (dflt : String) (id : Nat) : String :=
  ((table.find? (·.2 == id)).map (·.1)).getD dflt

def telescopeId := idOf Generated.Tables.telescopeIds
def telescopeName := nameOf Generated.Tables.telescopeIds "Fake"
def machineId := idOf Generated.Tables.machineIds
def machineName := nameOf Generated.Tables.machineIds "FAKE"

/-- sexagesimal packing `±DDMMSS.S` of (negative?, d, m, s) as an exact rational -/
def packRadec (neg : Bool) (d m : Nat) (s : Rat) : Rat :=
  let v : Rat := (d : Rat) * 10000 + (m : Rat) * 100 + s
  if neg then -v else v

/-- `parse_radec` for one coordinate: sign, then two `divmod`s of the magnitude -/
def parseRadec (v : Rat) : Bool × Nat × Nat × Rat :=
  let neg := decide (v < 0)
  let a := if v < 0 then -v else v
  let de := (a / 10000).floor
  let r := a - (de : Rat) * 10000
  let mi := (r / 100).floor
  let se := r - (mi : Rat) * 100
  (neg, de.toNat, mi.toNat, se)

end SppModel.Sigproc

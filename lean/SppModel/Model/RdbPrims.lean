/-!
Primitives the translated `FilReader.read_dedisp_block` (`Generated/DedispBlock.lean`) is written in: integer
vectors as lists (one entry per channel), the output block as a list of channel rows, the file as a function from
the sample index to the channel values of that sample, the reader position counted in samples.  Hand-written and
fixed.  NumPy semantics assumed (trusted base): `a[mask, idx[mask]] = b[mask]` stores, for every channel `c` with
`mask[c]`, `b[c]` at `a[c, idx[c]]`; `cread(nchans)` returns the next sample and advances the file by one sample.
-/
namespace SppModel.Rdb

def addSV (s : Int) (v : List Int) : List Int := v.map (fun d => s + d)
def addVS (v : List Int) (s : Int) : List Int := v.map (fun m => m + s)
def anyLt (v : List Int) (s : Int) : Bool := v.any (fun m => decide (m < s))
def anyGt (v : List Int) (s : Int) : Bool := v.any (fun m => decide (m > s))
/-- `int(v.min())`, `int(v.max())` (a header has at least one channel) -/
def minI (v : List Int) : Int := v.foldl min (v.headD 0)
def maxI (v : List Int) : Int := v.foldl max (v.headD 0)
def zeros (r c : Nat) : List (List Int) := List.replicate r (List.replicate c 0)
def gtS (v : List Int) (s : Int) : List Bool := v.map (fun m => decide (m > s))
def leS (v : List Int) (s : Int) : List Bool := v.map (fun m => decide (m ≤ s))
def land (a b : List Bool) : List Bool := List.zipWith (· && ·) a b
/-- `s - v` -/
def subSV (s : Int) (v : List Int) : List Int := v.map (fun m => s - m)

/-- `data[mask, idx[mask]] = src[mask]` -/
def scatter (data : List (List Int)) (mask : List Bool) (idx : List Int) (src : List Int) : List (List Int) :=
  (List.range data.length).map (fun c =>
    let row := data.getD c []
    if mask.getD c false then row.set (idx.getD c 0).toNat (src.getD c 0) else row)

/-- `for t in range(a, b): …` over a state -/
def forRangeI {σ : Type} (a b : Int) (s : σ) (f : Int → σ → σ) : σ :=
  (List.range (b - a).toNat).foldl (fun (s : σ) (i : Nat) => f (a + ((i : Nat) : Int)) s) s

end SppModel.Rdb

/-!
Primitives the generated loop kernels (`Generated/LoopKernels.lean`) are written in:
arrays are total functions `Nat → α`, a store is `upd`, a `for i in range(n)` loop is
`forRange n state body`.  Import-free and executable.
-/
namespace SppModel.Loop

/-- `for i in range(n): s = body i s` -/
def forRange {σ : Type} (n : Nat) (init : σ) (body : Nat → σ → σ) : σ :=
  (List.range n).foldl (fun s i => body i s) init

/-- `a[i] = v` -/
def upd {α : Type} (f : Nat → α) (i : Nat) (v : α) : Nat → α := fun j => if j = i then v else f j

/-- `np.sum(a[lo:hi])` -/
def sumSlice (f : Nat → Rat) (lo hi : Nat) : Rat := ((List.range (hi - lo)).map (fun k => f (lo + k))).sum

/-- `out[lo:hi] = src[lo2:hi2][::-1]` (equal lengths): `out[lo + k] = src[hi2 - 1 - k]` -/
def storeReversed {α : Type} (out : Nat → α) (lo hi : Nat) (src : Nat → α) (_lo2 hi2 : Nat) : Nat → α :=
  fun j => if lo ≤ j ∧ j < hi then src (hi2 - 1 - (j - lo)) else out j

/-- Python `int(x)` of a float: truncation toward zero -/
def pyInt (q : Rat) : Int := if 0 ≤ q then q.floor else -((-q).floor)

/-- Python `a // b` on floats: the floor of the exact quotient, as a float (exact here) -/
def floorDivQ (a b : Rat) : Rat := ((a / b).floor : Int)

/-! ### 2-D arrays (`Nat → Nat → α`, row then column) and integer arrays -/

/-- `a[r] = row` -/
def setRow {α : Type} (a : Nat → Nat → α) (r : Nat) (row : Nat → α) : Nat → Nat → α :=
  fun i => if i = r then row else a i

/-- `old[lo:hi] = src[slo : slo + (hi - lo)]` -/
def sliceInto {α : Type} (old : Nat → α) (lo hi : Nat) (src : Nat → α) (slo : Nat) : Nat → α :=
  fun k => if lo ≤ k ∧ k < hi then src (slo + (k - lo)) else old k

/-- `old[lo:hi] += src[slo : slo + (hi - lo)]` -/
def addSliceInto (old : Nat → Rat) (lo hi : Nat) (src : Nat → Rat) (slo : Nat) : Nat → Rat :=
  fun k => if lo ≤ k ∧ k < hi then old k + src (slo + (k - lo)) else old k

/-- `np.max(a)` over the first `n` cells (`a[0]` for `n = 0`, where NumPy raises) -/
def maxArr (a : Nat → Int) (n : Nat) : Int := (List.range n).foldl (fun m i => max m (a i)) (a 0)
def minArr (a : Nat → Int) (n : Nat) : Int := (List.range n).foldl (fun m i => min m (a i)) (a 0)

/-- `np.max(a)` of an `r × c` array -/
def maxArr2 (a : Nat → Nat → Int) (r c : Nat) : Int :=
  (List.range r).foldl (fun m i => (List.range c).foldl (fun m j => max m (a i j)) m) (a 0 0)
def minArr2 (a : Nat → Nat → Int) (r c : Nat) : Int :=
  (List.range r).foldl (fun m i => (List.range c).foldl (fun m j => min m (a i j)) m) (a 0 0)

/-- `np.sum(a, axis=0)` of an array with `rows` rows -/
def colSum (a : Nat → Nat → Rat) (rows : Nat) : Nat → Rat :=
  fun k => ((List.range rows).map (fun r => a r k)).sum

/-! ### strict evaluation for the executable twins

A loop whose state is a functional array builds, in compiled code, a chain of closures that re-runs the
loop body on every read (the compiler eta-expands a lambda returning a function, so nothing is shared).
The executable twins of the generated kernels (`<kernel>_exec`) therefore use `forRangeM memo`, which
folds over a *data* representation of the state: for every array the first `memo` cells tabulated in an
`Array`, plus the function itself for the cells beyond.  `forRangeM_eq` proves it is the same loop. -/

class Forceable (σ : Type) where
  Rep : Type
  toRep : Nat → σ → Rep
  ofRep : Rep → σ
  ofRep_toRep : ∀ m s, ofRep (toRep m s) = s

def tabulate {α : Type} (m : Nat) (f : Nat → α) : Array α := ((List.range m).map f).toArray

instance {α : Type} : Forceable (Nat → α) where
  Rep := Array α × (Nat → α)
  toRep m f := (tabulate m f, f)
  ofRep r := fun j => if h : j < r.1.size then r.1[j] else r.2 j
  ofRep_toRep m f := by
    funext j
    show (if h : j < (tabulate m f).size then (tabulate m f)[j] else f j) = f j
    by_cases h : j < (tabulate m f).size
    · rw [dif_pos h]
      simp [tabulate]
    · rw [dif_neg h]

/-- 2-D arrays: the first `memo × memo` cells tabulated -/
instance (priority := high) forceable2D {α : Type} : Forceable (Nat → Nat → α) where
  Rep := Array (Array α) × (Nat → Nat → α)
  toRep m f := (tabulate m (fun r => tabulate m (f r)), f)
  ofRep r := fun i j => if h : i < r.1.size then (if h2 : j < r.1[i].size then r.1[i][j] else r.2 i j) else r.2 i j
  ofRep_toRep m f := by
    funext i j
    show (if h : i < (tabulate m (fun r => tabulate m (f r))).size then
            (if h2 : j < (tabulate m (fun r => tabulate m (f r)))[i].size then (tabulate m (fun r => tabulate m (f r)))[i][j] else f i j)
          else f i j) = f i j
    by_cases h : i < (tabulate m (fun r => tabulate m (f r))).size
    · rw [dif_pos h]
      by_cases h2 : j < (tabulate m (fun r => tabulate m (f r)))[i].size
      · rw [dif_pos h2]
        simp [tabulate]
      · rw [dif_neg h2]
    · rw [dif_neg h]

instance : Forceable Rat := ⟨Rat, fun _ s => s, fun s => s, fun _ _ => rfl⟩
instance : Forceable Nat := ⟨Nat, fun _ s => s, fun s => s, fun _ _ => rfl⟩
instance {σ τ : Type} [Forceable σ] [Forceable τ] : Forceable (σ × τ) where
  Rep := Forceable.Rep σ × Forceable.Rep τ
  toRep m s := (Forceable.toRep m s.1, Forceable.toRep m s.2)
  ofRep r := (Forceable.ofRep r.1, Forceable.ofRep r.2)
  ofRep_toRep m s := by simp [Forceable.ofRep_toRep]

/-- `forRange` over the tabulated representation of the state -/
def forRangeM {σ : Type} [Forceable σ] (memo n : Nat) (init : σ) (body : Nat → σ → σ) : σ :=
  Forceable.ofRep ((List.range n).foldl
    (fun (r : Forceable.Rep σ) i => Forceable.toRep memo (body i (Forceable.ofRep r))) (Forceable.toRep memo init))

theorem forRangeM_eq {σ : Type} [Forceable σ] (memo n : Nat) (init : σ) (body : Nat → σ → σ) :
    forRangeM memo n init body = forRange n init body := by
  unfold forRangeM forRange
  generalize List.range n = l
  induction l generalizing init with
  | nil => simp [Forceable.ofRep_toRep]
  | cons i l ih =>
    simp only [List.foldl_cons, Forceable.ofRep_toRep]
    exact ih (body i init)

end SppModel.Loop

/-! Shared basics for the sigpyproc3 model (import-free). -/
namespace SppModel

/-- Error classes the implementation raises, canonicalised to a small enum. -/
inductive Err where
  | valueError | osError | typeError | indexError | runtimeError | other
deriving Repr, DecidableEq, Inhabited

def Err.name : Err → String
  | .valueError => "ValueError"
  | .osError => "OSError"
  | .typeError => "TypeError"
  | .indexError => "IndexError"
  | .runtimeError => "RuntimeError"
  | .other => "Other"

/-- Split a list into consecutive chunks of `k` elements; an incomplete
    trailing chunk is dropped (this is what `range(packed.size)` with
    `packed.size = array.size // k` does). -/
def chunks (k : Nat) (xs : List α) : List (List α) :=
  if _h : k = 0 then []
  else if _h2 : xs.length < k then []
  else xs.take k :: chunks k (xs.drop k)
termination_by xs.length
decreasing_by simp only [List.length_drop]; omega

end SppModel

import SppModel.Model.Dedisp
/-!
C13 model: the index pipeline of `kernels.convolve_templates` and the argmax of
`MatchedFilter._compute` over exact rationals.

The template normalisation (`normalize_template`: subtract the mean, divide by the
root sum of squares) is an element-wise affine map whose two constants depend only
on the multiset of template values; it is modelled as `x ↦ (x - μ) / σ` with `μ`, `σ`
parameters (computed outside the model, they involve a square root).
The transform pair enters through the circular-convolution identity
`irfft(rfft x * rfft y, n) = cconv n x y`.
-/
namespace SppModel.MatchedFilter
open SppModel

/-- `np.roll` on rationals -/
def roll (xs : List Rat) (s : Int) : List Rat :=
  let n := xs.length
  let sh := (s % (n : Int)).toNat
  if sh = 0 then xs else xs.drop (n - sh) ++ xs.take (n - sh)

/-- circular convolution of two length-`n` sequences -/
def cconv (n : Nat) (x y : List Rat) : List Rat :=
  (List.range n).map (fun k => ((List.range n).map (fun j => x.getD j 0 * y.getD ((k + n - j) % n) 0)).sum)

/-- `temp_pad = zeros(n); temp_pad[:len(kernel)] = kernel` -/
def padTemplate (n : Nat) (kernel : List Rat) : List Rat := (List.range n).map (fun i => kernel.getD i 0)

/-- the template as it enters the spectrum product: align the reference bin to index 0,
    time-reverse (`roll(x[::-1], 1)`), normalise -/
def prepTemplate (n : Nat) (kernel : List Rat) (ref : Nat) (mu sigma : Rat) : List Rat :=
  let tp := padTemplate n kernel
  let aligned := roll tp (-(ref : Int))
  let reversed := roll aligned.reverse 1
  reversed.map (fun v => (v - mu) / sigma)

/-- one row of `convs` -/
def response (data : List Rat) (kernel : List Rat) (ref : Nat) (mu sigma : Rat) : List Rat :=
  cconv data.length data (prepTemplate data.length kernel ref mu sigma)

/-- the zero-mean unit-norm template (not rolled): what the property's inner product uses -/
def normTemplate (n : Nat) (kernel : List Rat) (mu sigma : Rat) : List Rat :=
  (padTemplate n kernel).map (fun v => (v - mu) / sigma)

/-- inner product of the data with the normalised template whose reference bin is placed at `t` (ring of length n) -/
def correlationAt (data : List Rat) (kernel : List Rat) (ref : Nat) (mu sigma : Rat) (t : Nat) : Rat :=
  let n := data.length
  ((List.range n).map (fun (k : Nat) =>
    data.getD (((t : Int) + (k : Int) - (ref : Int)) % (n : Int)).toNat 0 * (normTemplate n kernel mu sigma).getD k 0)).sum

/-- first position of the maximum of a non-empty list (`argmax` returns the first occurrence) -/
def argmaxFirst (xs : List Rat) : Nat :=
  match xs with
  | [] => 0
  | x :: rest =>
    (rest.foldl (fun (acc : Nat × Rat × Nat) v =>
      let (best, bv, i) := acc
      if v > bv then (i, v, i + 1) else (best, bv, i + 1)) (0, x, 1)).1

/-- `np.unravel_index(convs.argmax(), convs.shape)` -/
def peakOf (convs : List (List Rat)) : Nat × Nat :=
  let n := (convs.getD 0 []).length
  let k := argmaxFirst convs.flatten
  if n = 0 then (0, 0) else (k / n, k % n)

end SppModel.MatchedFilter

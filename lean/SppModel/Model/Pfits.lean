import SppModel.Model.Plan
/-!
C18 model: position arithmetic of `PFITSReader.read_block` / `read_plan`
(`readers.py`) over a PSRFITS SUBINT table.  A file is a list of
sub-integrations of `nsblk` rows each; a row is one time sample after unpacking,
polarisation selection, scale/offset/weight and the frequency flip — all of
which act per element and per row, so position independence is about rows only
(rows are kept abstract: `α`).
-/
namespace SppModel.Pfits
open SppModel SppModel.Plan

variable {α : Type}

/-- the whole-file read: all rows in time order -/
def whole (subs : List (List α)) : List α := subs.flatten

/-- `PFITSFile.read_subints(startsub, nsubs)` -/
def readSubints (subs : List (List α)) (a m : Nat) : List α := ((subs.drop a).take m).flatten

/-- `PFITSReader.read_block(start, nsamps)`: range check, `divmod(start, NSBLK)`, number of rows to read,
    slice; the final reshape needs exactly `nsamps` rows -/
def readBlock (subs : List (List α)) (nsblk N : Nat) (s n : Int) : Except Err (List α) :=
  if s < 0 ∨ s + n > (N : Int) then .error .valueError
  else
    let s := s.toNat
    let n := n.toNat
    let startsub := s / nsblk
    let startsamp := s % nsblk
    let nsubs := (startsamp + n + nsblk - 1) / nsblk
    let rows := ((readSubints subs startsub nsubs).drop startsamp).take n
    if rows.length = n then .ok rows else .error .valueError

/-- one block of `read_plan`: rows `[start, start+block)` -/
def readRows (subs : List (List α)) (nsblk start block : Nat) : List α :=
  let startsub := start / nsblk
  let startsamp := start % nsblk
  let nsubs := (startsamp + block + nsblk - 1) / nsblk
  ((readSubints subs startsub nsubs).drop startsamp).take block

/-- `PFITSReader.read_plan`: the plan arithmetic is FilReader's (shared model `Plan.planBlocks`); position
    advances by `block + skip` with `skip = -skipback` -/
def runPlanRows (subs : List (List α)) (nsblk : Nat) : Nat → List Entry → List (Nat × Nat × List α)
  | _, [] => []
  | p, (ii, len, skip) :: rest => (len, ii, readRows subs nsblk p len) :: runPlanRows subs nsblk (p + len - skip) rest

def readPlan (subs : List (List α)) (nsblk g s n k : Nat) : Except Err (List (Nat × Nat × List α)) :=
  if k ≥ geff g n then .error .valueError
  else match planBlocks g n k with
    | .error e => .error e
    | .ok bl => .ok (runPlanRows subs nsblk s bl)

end SppModel.Pfits

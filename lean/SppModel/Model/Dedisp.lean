import SppModel.Model.Meta
/-!
C09 model: the dispersion delay law over exact rationals and the index
arithmetic of every block dedispersion path (`core/kernels.py:987-1121`,
`block.py`, `readers.py:read_dedisp_block`).  A block is a list of channel rows.
(The streamed path is `Reduce.dedisperse`, C06.)
-/
namespace SppModel.Dedisp
open SppModel SppModel.Meta

/-- `DM_CONSTANT_LK = 4.148808e3` -/
def KDM : Rat := 4148808 / 1000

/-- delay in samples: `round(K * dm * (f^-2 - fref^-2) / tsamp)` (NumPy rounds half to even) -/
def delayQ (dm f fref tsamp : Rat) : Rat :=
  roundHalfEven (KDM * dm * (1 / (f * f) - 1 / (fref * fref)) / tsamp)

/-- `roll_block` on one row: `shift = shifts[irow] % ncols` (Python modulo), then
    `res[shift:] = row[:n-shift]; res[:shift] = row[n-shift:]` -/
def rollRow (row : List Int) (shift : Int) : List Int :=
  let n := row.length
  let sh := (shift % (n : Int)).toNat
  if sh = 0 then row else row.drop (n - sh) ++ row.take (n - sh)

def rollBlock (arr : List (List Int)) (shifts : List Int) : List (List Int) :=
  (List.range arr.length).map (fun c => rollRow (arr.getD c []) (shifts.getD c 0))

def maxI (xs : List Int) : Int := xs.foldl max 0     -- max(0, max xs)
def minI (xs : List Int) : Int := xs.foldl min 0     -- min(0, min xs)

/-- `roll_block_valid`: window `[start_col, end_col)` where no row wraps -/
def rollBlockValid (arr : List (List Int)) (shifts : List Int) : Except Err (List (List Int)) :=
  let n : Int := ((arr.getD 0 []).length : Int)
  let startCol := maxI shifts
  let endCol := n + minI shifts
  if endCol - startCol ≤ 0 then .error .valueError
  else .ok ((List.range arr.length).map (fun c =>
    let sh := shifts.getD c 0
    ((arr.getD c []).drop (startCol - sh).toNat).take (endCol - startCol).toNat))

def colSums (rows : List (List Int)) (n : Nat) : List Int :=
  (List.range n).map (fun t => (rows.map (fun r => r.getD t 0)).sum)

/-- `dmt_block`: one row per DM = channel sum of the rolled block -/
def dmtBlock (arr : List (List Int)) (table : List (List Int)) : List (List Int) :=
  table.map (fun sh => colSums (rollBlock arr sh) (arr.getD 0 []).length)

/-- `dmt_block_valid`: one common window for the whole table -/
def dmtBlockValid (arr : List (List Int)) (table : List (List Int)) : Except Err (List (List Int)) :=
  let n : Int := ((arr.getD 0 []).length : Int)
  let startCol := maxI table.flatten
  let endCol := n + minI table.flatten
  if endCol - startCol ≤ 0 then .error .valueError
  else .ok (table.map (fun shifts =>
    colSums ((List.range arr.length).map (fun c =>
      ((arr.getD c []).drop (startCol - shifts.getD c 0).toNat).take (endCol - startCol).toNat))
      (endCol - startCol).toNat))

/-- `FilterbankBlock.dedisperse(dm)`: roll by `-delays` -/
def blockDedisperse (arr : List (List Int)) (delays : List Int) : List (List Int) :=
  rollBlock arr (delays.map (fun d => -d))
def blockDedisperseValid (arr : List (List Int)) (delays : List Int) : Except Err (List (List Int)) :=
  rollBlockValid arr (delays.map (fun d => -d))
/-- `FilterbankBlock.dmt_transform`: the kernels get `-dm_delays` -/
def dmtTransform (arr : List (List Int)) (table : List (List Int)) : List (List Int) :=
  dmtBlock arr (table.map (fun r => r.map (fun d => -d)))
def dmtTransformValid (arr : List (List Int)) (table : List (List Int)) : Except Err (List (List Int)) :=
  dmtBlockValid arr (table.map (fun r => r.map (fun d => -d)))

/-- `FilReader.read_dedisp_block(start, nsamps, dm)` over a stream of `N` samples
    (rows = channels of the whole stream): channel `c` gets samples
    `[start + d_c, start + d_c + nsamps)`; out of range is rejected -/
def readDedispBlock (stream : List (List Int)) (N : Nat) (delays : List Int) (start nsamps : Int) :
    Except Err (List (List Int)) :=
  if delays.any (fun d => start + d < 0 ∨ start + d + nsamps > (N : Int)) then .error .valueError
  else .ok ((List.range stream.length).map (fun c =>
    ((stream.getD c []).drop (start + delays.getD c 0).toNat).take nsamps.toNat))

end SppModel.Dedisp

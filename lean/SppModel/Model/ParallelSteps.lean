import SppModel.Model.Parallel
/-!
C19 model, step level: an iteration of a parallel loop is a LIST of atomic steps (each step computes one value
from the current memory and stores it in one cell - a load/compute/store of the loop body); threads interleave the
steps of different iterations arbitrarily, keeping only the program order inside each iteration.
-/
namespace SppModel.Parallel

/-- one atomic step: store `f m` at cell `w` -/
structure Step where
  w : Nat
  f : Mem → Int

def Step.run (s : Step) (m : Mem) : Mem := fun a => if a = s.w then s.f m else m a

def runSteps (ss : List Step) (m : Mem) : Mem := ss.foldl (fun m s => s.run m) m

/-- `l` is an interleaving of the step lists `ps` (one list per iteration): every step of every list occurs
    exactly once and the steps of one list keep their order -/
inductive Interleave : List (List Step) → List Step → Prop
  | done (ps : List (List Step)) (h : ∀ p ∈ ps, p = []) : Interleave ps []
  /-- the next step executed is the head of the `k`-th list -/
  | step (ps : List (List Step)) (k : Nat) (s : Step) (rest : List Step) (l : List Step)
      (hk : ps[k]? = some (s :: rest)) (tl : Interleave (ps.set k rest) l) : Interleave ps (s :: l)

/-- the step lists of a race-free loop: iteration `i` stores only inside its footprint `W i`, what it stores
    depends only on its own footprint and on memory no iteration stores to, footprints are disjoint -/
structure StepRaceFree (prog : List (List Step)) (W : Nat → Nat → Prop) : Prop where
  frame : ∀ i p, prog[i]? = some p → ∀ s ∈ p, W i s.w
  local_ : ∀ i p, prog[i]? = some p → ∀ s ∈ p, ∀ m m' : Mem,
    (∀ a, (∀ j, j ≠ i → ¬ W j a) → m a = m' a) → s.f m = s.f m'
  disjoint : ∀ i j a, i ≠ j → W i a → ¬ W j a

end SppModel.Parallel

import SppModel.Model.Reduce
/-!
C11 model: the `fold` kernel and the streaming loop of `Filterbank.fold`
(`core/kernels.py:371-412`, `base.py`).  The phase bin `pb t` and the
sub-integration `si t` of folded sample `t` (counted from the start of the
range) and the sub-band `sb c` of channel `c` are PARAMETERS: tables of
`Nat`s (the float formulas that produce them are evaluated outside the model).
-/
namespace SppModel.Fold
open SppModel SppModel.Plan SppModel.Reduce

/-- flat cell index: `(subint * nbins * nsubs) + phasebin + sub_band * nbins` -/
def cell (nbins nsubs : Nat) (pb si : List Nat) (sb : List Nat) (t c : Nat) : Nat :=
  si.getD t 0 * nbins * nsubs + pb.getD t 0 + sb.getD c 0 * nbins

/-- every `(cell, value)` accumulation the kernel performs, block by block:
    for `isamp < nsamps_r - maxdelay`, sample number `isamp + index` with `index = ii*(gulp - maxdelay)` -/
def foldWrites (flat : List Int) (C : Nat) (delays : List Nat) (md G nbins nsubs : Nat)
    (pb si sb : List Nat) (bs : List Blk) : List (Nat × Int) :=
  bs.flatMap (fun b => (List.range (b.len - md)).flatMap (fun t =>
    (List.range C).map (fun c =>
      (cell nbins nsubs pb si sb (b.ii * (G - md) + t) c, getS flat C (b.off + t + delays.getD c 0) c))))

/-- `Filterbank.fold` on the whole range `[s, s+n)`: sums (`fold_ar`) and hit counts (`count_ar`) -/
def fold (flat : List Int) (C : Nat) (delays : List Nat) (g s n N nbins nints nsubs : Nat)
    (pb si sb : List Nat) : Except Err (List Int × List Int) :=
  let md := maxDelay delays
  let G := max (2 * md) g
  match blocksOf G s n md N with
  | .error e => .error e
  | .ok bs =>
    let ws := foldWrites flat C delays md G nbins nsubs pb si sb bs
    let size := nbins * nints * nsubs
    .ok (applyAdd (List.replicate size 0) ws,
         applyAdd (List.replicate size 0) (ws.map (fun w => (w.1, (1 : Int)))))

/-- the documented phase bin for zero acceleration and a period of `m` samples:
    `int(nbins * t / m + 0.5) % nbins` (exact rationals) -/
def phaseBinQ (nbins t m : Nat) : Nat :=
  ((((nbins * t : Nat) : Rat) / (m : Rat) + 1 / 2).floor % (nbins : Int)).toNat

end SppModel.Fold

import SppModel.Model.Basic
/-!
C08 model: the header record the derived products carry, over exact rationals.
The per-site update functions are regenerated from the source
(`Generated/HeaderUpdates.lean`); this file only has the record and the few
arithmetic helpers those expressions use.
-/
namespace SppModel.Meta

structure Hdr where
  fch1 : Rat
  foff : Rat
  tsamp : Rat
  tstart : Rat
  dm : Rat
  nchans : Rat
  nsamples : Rat
  nbits : Rat
deriving Repr, DecidableEq

/-- Python `//` on the quotient -/
def floorQ (q : Rat) : Rat := (q.floor : Int)

/-- Python `round`: nearest integer, ties to even -/
def roundHalfEven (q : Rat) : Rat :=
  let f := q.floor
  let r := q - (f : Rat)
  if r < 1 / 2 then (f : Int)
  else if r > 1 / 2 then ((f + 1 : Int))
  else if f % 2 = 0 then (f : Int) else ((f + 1 : Int))

/-- centre frequency labelled on channel `i` -/
def chanFreq (h : Hdr) (i : Rat) : Rat := h.fch1 + i * h.foff

end SppModel.Meta

import SppModel.Model.Basic
/-!
C15 model: location / scale estimators and z-scores over exact rationals
(`core/stats.py:279-718`).  Normalising constants that are irrational in the
source (`norm.ppf(0.75)`, `sqrt(2/pi)`, …) are positive rational parameters.
`doublemad`, `diffcov` and astropy's `biweight` are not modelled (validated by
the correspondence run only).
-/
namespace SppModel.Robust
open SppModel

def sortQ (xs : List Rat) : List Rat := xs.mergeSort (fun a b => decide (a ≤ b))

def mean (xs : List Rat) : Rat := xs.sum / xs.length

/-- `np.median` -/
def median (xs : List Rat) : Rat :=
  let s := sortQ xs
  let n := s.length
  if n % 2 = 1 then s.getD (n / 2) 0 else (s.getD (n / 2 - 1) 0 + s.getD (n / 2) 0) / 2

/-- `np.percentile(x, 100*p)` with the default linear interpolation: virtual index `p*(n-1)` -/
def percentile (xs : List Rat) (p : Rat) : Rat :=
  let s := sortQ xs
  let n := s.length
  let v : Rat := p * ((n : Rat) - 1)
  let lo := v.floor.toNat
  let frac := v - (lo : Rat)
  s.getD lo 0 + frac * (s.getD (lo + 1) (s.getD lo 0) - s.getD lo 0)

def absQ (q : Rat) : Rat := if q < 0 then -q else q

/-- `_scale_iqr` -/
def iqr (norm : Rat) (xs : List Rat) : Rat := (percentile xs (3 / 4) - percentile xs (1 / 4)) / norm

/-- `_scale_mad` with its zero-MAD fallback to the mean absolute deviation -/
def mad (norm normAad : Rat) (xs : List Rat) : Rat :=
  let loc := median xs
  let dev := xs.map (fun x => absQ (x - loc))
  let m := median dev / norm
  if m = 0 then mean dev / normAad else m

/-- all `|x_i - x_j|`, `i < j` (`triu_indices(n, k=1)`) -/
def pairDiffs : List Rat → List Rat
  | [] => []
  | x :: rest => rest.map (fun y => absQ (x - y)) ++ pairDiffs rest

/-- `_scale_qn_1d`: the k-th smallest pairwise distance, `h = n/2+1`, `k = h(h-1)/2` -/
def qn (norm : Rat) (xs : List Rat) : Rat :=
  let n := xs.length
  let h := n / 2 + 1
  let k := h * (h - 1) / 2
  (sortQ (pairDiffs xs)).getD (k - 1) 0 / norm

/-- `_scale_sn_1d`: median over i of the median over j of `|x_i - x_j|` -/
def sn (norm : Rat) (xs : List Rat) : Rat :=
  norm * median (xs.map (fun xi => median (xs.map (fun xj => absQ (xi - xj)))))

/-- `_scale_gapper_1d` -/
def gapper (c : Rat) (xs : List Rat) : Rat :=
  let s := sortQ xs
  let n := s.length
  let terms := (List.range (n - 1)).map (fun i =>
    (((i + 1) * (n - 1 - i) : Nat) : Rat) * (s.getD (i + 1) 0 - s.getD i 0))
  terms.sum * c / ((n * (n - 1) : Nat) : Rat)

/-- variance (`np.std` squared) -/
def variance (xs : List Rat) : Rat := (xs.map (fun x => (x - mean xs) * (x - mean xs))).sum / xs.length

/-- `estimate_zscore`: a zero scale estimate falls back to unit scale -/
def zscore (loc scale : Rat) (xs : List Rat) : List Rat :=
  let s := if scale = 0 then 1 else scale
  xs.map (fun x => (x - loc) / s)

/-- estimator applied along an axis of a 2-D array = per lane (`apply_along_axes` / NumPy axis semantics) -/
def alongAxis (est : List Rat → Rat) (m : List (List Rat)) (axis : Option Nat) : List Rat :=
  match axis with
  | none => [est m.flatten]
  | some 1 => m.map est
  | some _ => (List.range ((m.getD 0 []).length)).map (fun j => est (m.map (fun r => r.getD j 0)))

end SppModel.Robust

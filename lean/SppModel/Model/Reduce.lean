import SppModel.Model.Plan
/-!
C06 model: the streaming reductions of `Filterbank` (`base.py`) as folds over
the blocks of `read_plan`.  The stream is a row-major `N × C` matrix of integers
(`flat`), blocks come from the C01 model, and each kernel is the list of
`(output index, value)` writes it performs, applied to the zero-initialised
output — exactly the index arithmetic of the source (`ii*gulp` with the caller's
gulp, `ii*(gulp-maxdelay)`, `t + delay_c`).
-/
namespace SppModel.Reduce
open SppModel SppModel.Plan

/-- sample `t`, channel `c` of the stream -/
def getS (flat : List Int) (C t c : Nat) : Int := flat.getD (t * C + c) 0

/-- sum over channels of sample `t` (`np.sum(inarray[nchans*isamp : nchans*(isamp+1)])`) -/
def rowSum (flat : List Int) (C t : Nat) : Int := ((List.range C).map (fun c => getS flat C t c)).sum

/-- `Σ_c x[t + delay_c, c]` -/
def dedispSum (flat : List Int) (C : Nat) (delays : List Nat) (t : Nat) : Int :=
  ((List.range C).map (fun c => getS flat C (t + delays.getD c 0) c)).sum

/-- blocks of a plan that completes; an error at any point aborts the reduction -/
def blocksOf (g s n k N : Nat) : Except Err (List Blk) :=
  let r := runPlan g s n k N
  match r.err with
  | some e => .error e
  | none => .ok r.yielded

def applySet (out : List Int) (ws : List (Nat × Int)) : List Int := ws.foldl (fun o w => o.set w.1 w.2) out
def applyAdd (out : List Int) (ws : List (Nat × Int)) : List Int :=
  ws.foldl (fun o w => o.set w.1 (o.getD w.1 0 + w.2)) out

/-- `extract_tim(data, tim_ar, nchans, nsamps_r, ii*gulp)` for every block -/
def collapseWrites (flat : List Int) (C g : Nat) (bs : List Blk) : List (Nat × Int) :=
  bs.flatMap (fun b => (List.range b.len).map (fun t => (b.ii * g + t, rowSum flat C (b.off + t))))

def collapse (flat : List Int) (C g s n N : Nat) : Except Err (List Int) :=
  match blocksOf g s n 0 N with
  | .error e => .error e
  | .ok bs => .ok (applySet (List.replicate n 0) (collapseWrites flat C g bs))

/-- `tim_ar[ii*gulp : ii*gulp + nsamps_r] = data_2d[:, ichan]` -/
def readChanWrites (flat : List Int) (C g ichan : Nat) (bs : List Blk) : List (Nat × Int) :=
  bs.flatMap (fun b => (List.range b.len).map (fun t => (b.ii * g + t, getS flat C (b.off + t) ichan)))

def readChan (flat : List Int) (C g s n N ichan : Nat) : Except Err (List Int) :=
  if ichan ≥ C then .error .valueError else
  match blocksOf g s n 0 N with
  | .error e => .error e
  | .ok bs => .ok (applySet (List.replicate n 0) (readChanWrites flat C g ichan bs))

/-- `extract_bpass` accumulates per channel; `num_samples += nsamps_r` -/
def bandpass (flat : List Int) (C g s n N : Nat) : Except Err (Nat × List Int) :=
  match blocksOf g s n 0 N with
  | .error e => .error e
  | .ok bs =>
    let cnt := (bs.map (·.len)).sum
    .ok (cnt, (List.range C).map (fun c =>
      (bs.map (fun b => ((List.range b.len).map (fun t => getS flat C (b.off + t) c)).sum)).sum))

/-- the `dedisperse` kernel: for `isamp < nsamps_r - maxdelay`, `out[index + isamp] += Σ_c …` -/
def dedispWrites (flat : List Int) (C : Nat) (delays : List Nat) (md G : Nat) (bs : List Blk) : List (Nat × Int) :=
  bs.flatMap (fun b => (List.range (b.len - md)).map
    (fun t => (b.ii * (G - md) + t, dedispSum flat C delays (b.off + t))))

def maxDelay (delays : List Nat) : Nat := delays.foldl max 0

/-- `Filterbank.dedisperse`: gulp raised to `2*maxdelay`, skipback `maxdelay`,
    output of `nsamps_read - maxdelay` samples -/
def dedisperse (flat : List Int) (C : Nat) (delays : List Nat) (g s n N : Nat) : Except Err (List Int) :=
  let md := maxDelay delays
  let G := max (2 * md) g
  if n ≤ md then .error .valueError else
  match blocksOf G s n md N with
  | .error e => .error e
  | .ok bs => .ok (applyAdd (List.replicate (n - md) 0) (dedispWrites flat C delays md G bs))

end SppModel.Reduce

import SppModel.Model.Robust
/-!
NumPy primitives the translated estimators of `core/stats.py` (`Generated/StatsLane.lean`) are written in, for ONE
lane: a 1-D array is a `List Rat`, a reduction along the lane gives a scalar, a scalar broadcasts against the lane.
Hand-written and fixed; the order statistics (`median`, `percentile`, `sortQ`) are those of the C15 hand model
(`Model/Robust.lean`), whose NumPy counterparts (`np.median`, `np.percentile(linear)`, `np.sort`, `np.partition`)
are exercised by the correspondence run (trusted base: NumPy semantics).

Idealisations recorded here: `np.isclose(x, 0)` (absolute tolerance 1e-8) is `x = 0`; NaN is `none`.
-/
namespace SppModel.Np
open SppModel SppModel.Robust

def median (v : List Rat) : Rat := Robust.median v
def mean (v : List Rat) : Rat := Robust.mean v
def percentile (v : List Rat) (p : Rat) : Rat := Robust.percentile v p
def sort (v : List Rat) : List Rat := Robust.sortQ v

def absV (v : List Rat) : List Rat := v.map Robust.absQ
def absM (m : List (List Rat)) : List (List Rat) := m.map absV
def subS (v : List Rat) (s : Rat) : List Rat := v.map (fun x => x - s)
def divS (v : List Rat) (s : Rat) : List Rat := v.map (fun x => x / s)
def mulS (v : List Rat) (s : Rat) : List Rat := v.map (fun x => x * s)
def mulV (a b : List Rat) : List Rat := List.zipWith (· * ·) a b

def ltS (v : List Rat) (s : Rat) : List Bool := v.map (fun x => decide (x < s))
def leS (v : List Rat) (s : Rat) : List Bool := v.map (fun x => decide (x ≤ s))
def gtS (v : List Rat) (s : Rat) : List Bool := v.map (fun x => decide (x > s))
def geS (v : List Rat) (s : Rat) : List Bool := v.map (fun x => decide (x ≥ s))

/-- `np.isclose(x, 0)` with the tolerance idealised away -/
def isclose0 (x : Rat) : Bool := decide (x = 0)
/-- `np.where(c, a, b)` on scalars -/
def whereS (c : Bool) (a b : Rat) : Rat := if c then a else b
/-- `np.where(mask, vec, np.nan)` -/
def whereNan (m : List Bool) (v : List Rat) : List (Option Rat) :=
  List.zipWith (fun b x => if b then some x else none) m v
/-- `np.where(mask, a, b)` with scalar branches -/
def whereMS (m : List Bool) (a b : Rat) : List Rat := m.map (fun c => if c then a else b)
/-- `np.where(mask, a, vec)` -/
def whereMSV (m : List Bool) (a : Rat) (v : List Rat) : List Rat :=
  List.zipWith (fun c x => if c then a else x) m v
def nanvals (o : List (Option Rat)) : List Rat := o.filterMap id
def nanmedian (o : List (Option Rat)) : Rat := median (nanvals o)
def nanmean (o : List (Option Rat)) : Rat := mean (nanvals o)

/-- `np.diff(v)` -/
def diff (v : List Rat) : List Rat := List.zipWith (fun a b => b - a) v v.tail
/-- `np.diff([p0, p1], axis=0)` squeezed -/
def diff1 (p : List Rat) : Rat := p.getD 1 0 - p.getD 0 0
/-- `np.arange(a, b)` / `np.arange(a, b, -1)` as rationals -/
def arangeUp (a b : Nat) : List Rat := (List.range (b - a)).map (fun i => (((a + i : Nat)) : Rat))
def arangeDown (a b : Nat) : List Rat := (List.range (a - b)).map (fun i => (((a - i : Nat)) : Rat))
def dot (a b : List Rat) : Rat := (List.zipWith (· * ·) a b).sum

/-- `data[:, None] - data` -/
def outerSub (v : List Rat) : List (List Rat) := v.map (fun xi => v.map (fun xj => xi - xj))
def rowMedians (m : List (List Rat)) : List Rat := m.map median
/-- `m[np.triu_indices(n, k=1)]` of an `n × n` matrix, row-major -/
def triu1 (m : List (List Rat)) : List Rat :=
  (List.range m.length).flatMap (fun i => (m.getD i []).drop (i + 1))
/-- `np.partition(v, k)[k]`: the k-th smallest (0-based) -/
def kth (v : List Rat) (k : Nat) : Rat := (Robust.sortQ v).getD k 0

/-- lanes of a 2-D array along axis 0 (columns) -/
def lanesAxis0 (m : List (List Rat)) : List (List Rat) :=
  (List.range ((m.getD 0 []).length)).map (fun j => m.map (fun r => r.getD j 0))

end SppModel.Np

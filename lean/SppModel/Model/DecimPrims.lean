/-!
NumPy array primitives used by the decimation wrappers of `core/stats.py` (`downsample_1d`, `downsample_2d`,
`downsample_2d_flat`): slicing from the front, C-order reshapes and reductions over the group axes, on nested
lists over exact rationals.  Hand-written and FIXED; `Generated/DecimWrap.lean` is written over them.
Every primitive is index based (`getD`) so that a wrong size shows as a default 0, never as a shorter result.
-/
namespace SppModel.DecimPrims

abbrev Vec := List Rat
abbrev Mat := List (List Rat)
abbrev T4 := List (List (List (List Rat)))

/-- `array[:n]` of a 1-D array -/
def sliceTo (x : Vec) (n : Nat) : Vec := x.take n

/-- `x.reshape(-1, cols)`: the rows of the C-order reshape -/
def reshapeRows (x : Vec) (cols : Nat) : Mat :=
  (List.range (x.length / cols)).map (fun i => (List.range cols).map (fun a => x.getD (i * cols + a) 0))

/-- `x.reshape(d1, d2)` of a 1-D array / the 2-D array whose row-major data is `x` -/
def reshape2 (x : Vec) (d1 d2 : Nat) : Mat :=
  (List.range d1).map (fun r => (List.range d2).map (fun c => x.getD (r * d2 + c) 0))

/-- `m[:a, :b]` -/
def slice2 (m : Mat) (a b : Nat) : Mat := (m.take a).map (fun row => row.take b)

/-- `m.reshape((n1, f1, n2, f2))` of an `(n1·f1) × (n2·f2)` matrix (C order) -/
def reshape4 (m : Mat) (s : Nat × Nat × Nat × Nat) : T4 :=
  (List.range s.1).map (fun i => (List.range s.2.1).map (fun a => (List.range s.2.2.1).map (fun j =>
    (List.range s.2.2.2).map (fun b => (m.getD (i * s.2.1 + a) []).getD (j * s.2.2.2 + b) 0))))

/-- `red(m, axis=1)` -/
def reduceAxis1 (red : Vec → Rat) (m : Mat) : Vec := m.map red

/-- `red(t, axis=(1, 3))`: entry `(i, j)` reduces `t[i][a][j][b]` over all `(a, b)` -/
def reduceAxes13 (red : Vec → Rat) (t : T4) : Mat :=
  t.map (fun ti => (List.range ((ti.headD []).length)).map (fun j =>
    red (ti.flatMap (fun ta => ta.getD j []))))

/-- `m.ravel()` -/
def ravel (m : Mat) : Vec := m.flatMap id

/-- `np.mean` of a list -/
def mean (l : Vec) : Rat := l.sum / (l.length : Rat)

end SppModel.DecimPrims

import SppModel.Model.Basic
/-!
C14 model: running filters with symmetric reflection, decimators and the
closed-form linear detrend, over exact rationals
(`core/stats.py:47-238`, `core/kernels.py:166-257, 744-786`).
-/
namespace SppModel.Filters
open SppModel

/-- symmetric reflection of an arbitrary integer index into `[0, n)`: period `2n`, edge value repeated
    (`np.pad(..., 'symmetric')`) -/
def refl (n : Nat) (i : Int) : Nat :=
  let m := (i % (2 * n : Int)).toNat
  if m < n then m else 2 * n - 1 - m

/-- `running_filter` geometry: pad `window//2` on the left and `window//2` (odd) or `window//2 - 1` (even) on the
    right, moving window of `window` samples, keep outputs from index `window-1`: output `t` sees padded positions
    `t .. t+window-1`, i.e. original indices `t - window//2 .. t - window//2 + window - 1` reflected -/
def windowIdx (n w t : Nat) : List Nat :=
  (List.range w).map (fun (j : Nat) => refl n ((t : Int) + (j : Int) - ((w / 2 : Nat) : Int)))

/-- number of outputs: `len(padded) - (window-1)` -/
def runningLen (n w : Nat) : Nat :=
  let pad := if w % 2 = 1 then w / 2 + w / 2 else w / 2 + (w / 2 - 1)
  n + pad - (w - 1)

def runningMean (x : List Rat) (w : Nat) : List Rat :=
  (List.range (runningLen x.length w)).map (fun t =>
    ((windowIdx x.length w t).map (fun i => x.getD i 0)).sum / (w : Rat))

/-- `downsample_1d_mean`: means of consecutive full groups, remainder dropped -/
def downsample1d (x : List Rat) (f : Nat) : List Rat :=
  (List.range (x.length / f)).map (fun i => ((List.range f).map (fun a => x.getD (i * f + a) 0)).sum / (f : Rat))

/-- `downsample_2d` on a row-major `d1 × d2` array -/
def downsample2d (x : List Rat) (d1 d2 f1 f2 : Nat) : List (List Rat) :=
  (List.range (d1 / f1)).map (fun i => (List.range (d2 / f2)).map (fun j =>
    ((List.range f1).map (fun a => ((List.range f2).map (fun b =>
      x.getD ((i * f1 + a) * d2 + (j * f2 + b)) 0)).sum)).sum / ((f1 * f2 : Nat) : Rat)))

/-- `downsample_2d_mean_flat(array, f1, f2, d1, d2)`: the kernel's own index arithmetic
    (`pos = d2*i*f1 + j*f2`, `ipos = pos + a*d2`, `result[new_d2*i + j]`) -/
def downsample2dFlat (x : List Rat) (d1 d2 f1 f2 : Nat) : List Rat :=
  (List.range (d1 / f1)).flatMap (fun i => (List.range (d2 / f2)).map (fun j =>
    ((List.range f1).map (fun a => ((List.range f2).map (fun b =>
      x.getD (d2 * i * f1 + j * f2 + a * d2 + b) 0)).sum)).sum / ((f1 * f2 : Nat) : Rat)))

/-- `detrend_1d`: closed-form least-squares line through `(i, x_i)` removed -/
def detrend (x : List Rat) : List Rat :=
  let m : Nat := x.length
  if m ≤ 1 then x.map (fun _ => 0) else
  let mq : Rat := m
  let xs : Rat := mq * (mq - 1) / 2
  let xsq : Rat := mq * (mq - 1) * (2 * mq - 1) / 6
  let ys : Rat := x.sum
  let xys : Rat := ((List.range m).map (fun (i : Nat) => ((i : Nat) : Rat) * x.getD i 0)).sum
  let slope := (mq * xys - xs * ys) / (mq * xsq - xs * xs)
  let icpt := (ys - slope * xs) / mq
  (List.range m).map (fun (i : Nat) => x.getD i 0 - (slope * ((i : Nat) : Rat) + icpt))

end SppModel.Filters

import SppModel.Model.Dedisp
/-!
Element-wise vector primitives the generated state machines (`Generated/StateMachines.lean`) are written in:
NumPy 1-D arrays are lists.  (NumPy raises on a length mismatch of two operands; `zipWith` truncates — the
lengths are equal in every reachable state, which the tie theorems state as an invariant.)
-/
namespace SppModel.Vec

def zerosB (n : Nat) : List Bool := List.replicate n false
def lor (a b : List Bool) : List Bool := List.zipWith (· || ·) a b
def land (a b : List Bool) : List Bool := List.zipWith (· && ·) a b
/-- `~mask`, `vec[mask]` (Boolean selection) -/
def lnot (a : List Bool) : List Bool := a.map (fun b => !b)
def compress (v : List Rat) (m : List Bool) : List Rat :=
  (List.zip v m).filterMap (fun p => if p.2 then some p.1 else none)
/-- `vec >= s`, `vec <= s` -/
def geS (v : List Rat) (s : Rat) : List Bool := v.map (fun x => decide (x ≥ s))
def leS (v : List Rat) (s : Rat) : List Bool := v.map (fun x => decide (x ≤ s))
/-- `-1 * vec`, `a - b`, `vec.fill(0)` -/
def negI (v : List Int) : List Int := v.map (fun x => -1 * x)
def subI (a b : List Int) : List Int := List.zipWith (· - ·) a b
def zerosLikeI (v : List Int) : List Int := v.map (fun _ => 0)
/-- `np.arange(n, dtype=float)`, `vec / s`, `np.round(vec).astype(int)` -/
def arangeQ (n : Nat) : List Rat := (List.range n).map (fun i => ((i : Nat) : Rat))
def divS (v : List Rat) (s : Rat) : List Rat := v.map (fun x => x / s)
def roundI (v : List Rat) : List Int := v.map (fun x => (Meta.roundHalfEven x).floor)
/-- `np.roll(profile, k)` -/
def roll (p : List Int) (k : Int) : List Int := Dedisp.rollRow p k
/-- `for i in range(A): for j in range(B): data[i][j] = f i j data[i][j]` (cells outside `A × B` untouched) -/
def mapCube (A B : Nat) (data : List (List (List Int))) (f : Nat → Nat → List Int → List Int) : List (List (List Int)) :=
  (List.range data.length).map (fun i =>
    let sub := data.getD i []
    if i < A then (List.range sub.length).map (fun j => if j < B then f i j (sub.getD j []) else sub.getD j [])
    else sub)

end SppModel.Vec

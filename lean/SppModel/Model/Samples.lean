import SppModel.Model.Bits
import SppModel.Model.SigprocHeader
/-!
C04 model: sample encoding at every depth, `FileWriter.cwrite`, the sample
count a reader infers from the file length, and the write → read composition
for SIGPROC files.  A 32-bit sample is its 4-byte pattern (a float32 is never
interpreted), 16-bit is little-endian, sub-byte depths use the C03 kernels
with the default bit order.
-/
namespace SppModel.Samples
open SppModel SppModel.Bits

abbrev Bytes := List Nat

/-- in-memory dtypes an array handed to `cwrite` may have -/
inductive DType where | uint8 | uint16 | int64 | float32 | float64
deriving Repr, DecidableEq

def le16 (n : Nat) : Bytes := [n % 256, n / 256 % 256]

/-- encode unpacked sample values at depth `d` (values: integers `< 2^d` for d ≤ 16; for d = 32 the
    32-bit pattern of the float32) -/
def encodeSamples (d : Nat) (ws : List Nat) : Except Err Bytes :=
  if d = 1 ∨ d = 2 ∨ d = 4 then
    match defaultOrder d with
    | none => .error .valueError
    | some o => match codec d o with
      | none => .error .valueError
      | some c => .ok (packArr c ws)
  else if d = 8 then .ok (ws.map (· % 256))
  else if d = 16 then .ok (ws.flatMap le16)
  else if d = 32 then .ok (ws.flatMap Sigproc.le32)
  else .error .valueError

def rd16s : Bytes → List Nat
  | b0 :: b1 :: rest => (b0 + 256 * b1) :: rd16s rest
  | _ => []

def rd32s : Bytes → List Nat
  | b0 :: b1 :: b2 :: b3 :: rest => (b0 + 256 * b1 + 65536 * b2 + 16777216 * b3) :: rd32s rest
  | _ => []

/-- what `cread`/`np.fromfile` + unpack deliver -/
def decodeSamples (d : Nat) (bs : Bytes) : Except Err (List Nat) :=
  if d = 1 ∨ d = 2 ∨ d = 4 then
    match defaultOrder d with
    | none => .error .valueError
    | some o => match codec d o with
      | none => .error .valueError
      | some c => .ok (unpackArr c bs)
  else if d = 8 then .ok bs
  else if d = 16 then .ok (rd16s bs)
  else if d = 32 then .ok (rd32s bs)
  else .error .valueError

/-- `FileWriter.cwrite(arr)` for a writer of depth `d` (no rescale): sub-byte depths pack and
    therefore refuse anything but uint8; wider depths convert the array to the file's sample
    type, so the bytes appended never depend on the in-memory dtype. -/
def cwrite (d : Nat) (dt : DType) (ws : List Nat) : Except Err Bytes :=
  if d = 1 ∨ d = 2 ∨ d = 4 then
    if dt = .uint8 then encodeSamples d ws else .error .valueError
  else encodeSamples d ws

/-- several `cwrite` calls in a row append -/
def cwriteAll (d : Nat) (dt : DType) : List (List Nat) → Except Err Bytes
  | [] => .ok []
  | c :: cs =>
    match cwrite d dt c, cwriteAll d dt cs with
    | .ok a, .ok b => .ok (a ++ b)
    | .error e, _ => .error e
    | _, .error e => .error e

/-- `nsamples = 8 * datalen // nbits // nchans` (`sigproc.py:284`) -/
def inferNsamples (datalen nbits nchans : Nat) : Nat := 8 * datalen / nbits / nchans

/-- header value lookup helpers -/
def lookupU32 (kvs : List (Sigproc.Bytes × Sigproc.Val)) (k : String) : Option Nat :=
  match kvs.find? (·.1 == Sigproc.ascii k) with
  | some (_, .u32 n) => some n
  | _ => none

/-- Open a SIGPROC file and read all of it: parse the header, infer the sample
    count from the file length, decode `nsamples * nchans` values. -/
def readFil (file : Bytes) : Except Err (Nat × Nat × Nat × List Nat) :=   -- (nbits, nchans, nsamples, values)
  match Sigproc.parseHeader file with
  | .error e => .error e
  | .ok (kvs, hdrlen) =>
    match lookupU32 kvs "nbits", lookupU32 kvs "nchans" with
    | some nbits, some nchans =>
      if nbits = 0 ∨ nchans = 0 then .error .other else
      let data := file.drop hdrlen
      let ns := inferNsamples data.length nbits nchans
      match decodeSamples nbits (data.take (ns * nchans * nbits / 8)) with
      | .error e => .error e
      | .ok vs => .ok (nbits, nchans, ns, vs)
    | _, _ => .error .other

end SppModel.Samples

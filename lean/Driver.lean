import SppModel
import SppModel.Generated.LoopKernels
import SppModel.Generated.MomentKernels
import SppModel.Generated.BlockKernels
import SppModel.Generated.SigprocCodec
import SppModel.Generated.StatsLane
/-!
Line-protocol driver for the executable model (`lake env lean --run Driver.lean`).
One request per line on stdin, one answer per line on stdout.  Unknown or
malformed requests answer `bad-op` — the model never defaults.
-/
open SppModel

def natList? (ts : List String) : Option (List Nat) := ts.mapM String.toNat?

/-- parse `n x1 .. xn rest…` -/
def takeCounted (ts : List String) : Option (List Nat × List String) :=
  match ts with
  | [] => none
  | n :: rest =>
    match n.toNat? with
    | none => none
    | some k =>
      if rest.length < k then none
      else match natList? (rest.take k) with
        | none => none
        | some xs => some (xs, rest.drop k)

def showNats (xs : List Nat) : String := " ".intercalate (xs.map toString)

def showExcept (r : Except Err (List Nat)) : String :=
  match r with
  | .ok xs => s!"ok {xs.length} {showNats xs}".trimAsciiEnd.toString
  | .error e => s!"err {e.name}"

def optBuf (s : String) : Option (Option Nat) :=
  if s == "-" then some none else s.toNat?.map some

def stepC03 (ts : List String) : String :=
  match ts with
  | op :: u8 :: d :: order :: buf :: rest =>
    match d.toNat?, optBuf buf, takeCounted rest with
    | some d, some buf, some (xs, []) =>
      let isU8 := u8 == "u8"
      let order := if order == "_" then "" else order
      if op == "unpack" then showExcept (Bits.unpack isU8 d order xs buf)
      else if op == "pack" then showExcept (Bits.pack isU8 d order xs buf)
      else "bad-op"
    | _, _, _ => "bad-op"
  | _ => "bad-op"

def showRun (r : Plan.Run) : String :=
  let bs := " ".intercalate (r.yielded.map (fun b => s!"{b.ii} {b.off} {b.len}"))
  let e := match r.err with | none => "none" | some e => e.name
  s!"run {r.yielded.length} {bs} {e}".replace "  " " "

def stepC01 (ts : List String) : String :=
  match ts with
  | ["run", g, s, n, k, N] =>
    match g.toNat?, s.toNat?, n.toNat?, k.toNat?, N.toNat? with
    | some g, some s, some n, some k, some N => showRun (Plan.runPlan g s n k N)
    | _, _, _, _, _ => "bad-op"
  | _ => "bad-op"

/-- files as `nf h1 d1 … ; ops…`; data bytes are their global stream index, header bytes are 1000000+k -/
def mkFiles (hd : List (Nat × Nat)) : Stream.Files Nat :=
  let rec go (l : List (Nat × Nat)) (base : Nat) : Stream.Files Nat :=
    match l with
    | [] => []
    | (h, d) :: rest => ⟨(List.range h).map (· + 1000000), List.range' base d⟩ :: go rest (base + d)
  go hd 0

def pairs : List Nat → Option (List (Nat × Nat))
  | [] => some []
  | a :: b :: rest => (pairs rest).map ((a, b) :: ·)
  | _ => none

def parseOps : List String → Option (List Stream.Op)
  | [] => some []
  | "s0" :: o :: rest => do let o ← o.toInt?; let r ← parseOps rest; pure (.seek o 0 :: r)
  | "s1" :: o :: rest => do let o ← o.toInt?; let r ← parseOps rest; pure (.seek o 1 :: r)
  | "s2" :: o :: rest => do let o ← o.toInt?; let r ← parseOps rest; pure (.seek o 2 :: r)
  | "cr" :: b :: rest => do let b ← b.toNat?; let r ← parseOps rest; pure (.cread b :: r)
  | "ci" :: b :: rest => do let b ← b.toNat?; let r ← parseOps rest; pure (.creadinto b :: r)
  | _ => none

def showOut (o : Stream.Out Nat × Int) : String :=
  match o with
  | (.unit, p) => s!"u {p}"
  | (.err e, p) => s!"e {e.name} {p}"
  | (.bytes bs, p) => s!"b {bs.length} {showNats bs} {p}".replace "  " " "

def stepC02 (ts : List String) : String :=
  match ts with
  | "run" :: nf :: rest =>
    match nf.toNat? with
    | none => "bad-op"
    | some nf =>
      match natList? (rest.take (2 * nf)) >>= pairs, parseOps (rest.drop (2 * nf)) with
      | some hd, some ops =>
        if hd.length ≠ nf then "bad-op" else
        let fs := mkFiles hd
        " ; ".intercalate ((Stream.runOps fs Stream.init ops).map showOut)
      | _, _ => "bad-op"
  | "rb" :: nf :: rest =>
    match nf.toNat? with
    | none => "bad-op"
    | some nf =>
      match natList? (rest.take (2 * nf)) >>= pairs, rest.drop (2 * nf) with
      | some hd, [stride, ns, s, n] =>
        match stride.toNat?, ns.toNat?, s.toInt?, n.toInt? with
        | some stride, some ns, some s, some n =>
          (match Stream.readBlock (mkFiles hd) stride ns s n with
           | .ok bs => s!"b {bs.length} {showNats bs}".trimAsciiEnd.toString
           | .error e => s!"e {e.name}")
        | _, _, _, _ => "bad-op"
      | _, _ => "bad-op"
  | _ => "bad-op"

def intList? (ts : List String) : Option (List Int) := ts.mapM String.toInt?

/-- parse `k len v… len v… rest` into chunks of rationals `v/den` -/
def takeChunks (den : Nat) : Nat → List String → Option (List (List Rat) × List String)
  | 0, ts => some ([], ts)
  | k + 1, ts =>
    match ts with
    | [] => none
    | n :: rest =>
      match n.toNat? with
      | none => none
      | some len =>
        if rest.length < len then none else
        match intList? (rest.take len) with
        | none => none
        | some vs =>
          match takeChunks den k (rest.drop len) with
          | none => none
          | some (cs, r) => some (vs.map (fun v => mkRat v den) :: cs, r)

def showRat (q : Rat) : String := s!"{q.num}/{q.den}"

def showMom (m : Moments.Mom) (mm : Moments.MinMax) : String :=
  s!"ok {m.n} {showRat m.m1} {showRat m.m2} {showRat m.m3} {showRat m.m4} {showRat mm.mn} {showRat mm.mx}"

def runAcc (basic : Bool) (chunks : List (List Rat)) : Moments.Mom × Moments.MinMax :=
  let m := if basic then chunks.foldl Moments.pushBasic Moments.Mom.zero
           else Moments.pushChunks Moments.Mom.zero chunks
  (m, Moments.pushChunksMM 0 ⟨0, 0⟩ chunks)

def stepC10 (ts : List String) : String :=
  match ts with
  | "push" :: mode :: den :: k :: rest =>
    match den.toNat?, k.toNat? with
    | some den, some k =>
      if den = 0 then "bad-op" else
      match takeChunks den k rest with
      | some (cs, []) => let (m, mm) := runAcc (mode == "basic") cs; showMom m mm
      | _ => "bad-op"
    | _, _ => "bad-op"
  | "merge" :: den :: ka :: rest =>
    match den.toNat?, ka.toNat? with
    | some den, some ka =>
      if den = 0 then "bad-op" else
      match takeChunks den ka rest with
      | some (ca, kb :: rest2) =>
        match kb.toNat? with
        | none => "bad-op"
        | some kb =>
          match takeChunks den kb rest2 with
          | some (cb, []) =>
            let (a, am) := runAcc false ca
            let (b, bm) := runAcc false cb
            showMom (Moments.merge a b) ⟨min am.mn bm.mn, max am.mx bm.mx⟩
          | _ => "bad-op"
      | _ => "bad-op"
    | _, _ => "bad-op"
  | _ => "bad-op"

def hexDigit? (c : Char) : Option Nat :=
  if '0' ≤ c ∧ c ≤ '9' then some (c.toNat - '0'.toNat)
  else if 'a' ≤ c ∧ c ≤ 'f' then some (c.toNat - 'a'.toNat + 10)
  else if 'A' ≤ c ∧ c ≤ 'F' then some (c.toNat - 'A'.toNat + 10) else none

def unhexAux : List Char → Option (List Nat)
  | [] => some []
  | a :: b :: rest => do
    let x ← hexDigit? a; let y ← hexDigit? b; let r ← unhexAux rest; pure ((16 * x + y) :: r)
  | _ => none

/-- `-` is the empty byte string -/
def unhex (s : String) : Option (List Nat) := if s == "-" then some [] else unhexAux s.toList

def hexOf (bs : List Nat) : String :=
  if bs.isEmpty then "-" else
  let d (n : Nat) : Char := if n < 10 then Char.ofNat (48 + n) else Char.ofNat (87 + n)
  String.ofList (bs.flatMap (fun b => [d (b / 16 % 16), d (b % 16)]))

def fmtName : Sigproc.Fmt → String
  | .I => "I" | .d => "d" | .b => "b" | .str => "str"

def parseVal (f v : String) : Option Sigproc.Val :=
  if f == "I" then v.toNat?.map .u32
  else if f == "d" then (unhex v).map .f64
  else if f == "b" then v.toInt?.map (fun z => .i8 ((z % 256).toNat))
  else if f == "str" then (unhex v).map .str
  else none

def showVal : Sigproc.Val → String
  | .u32 n => toString n
  | .f64 bs => hexOf bs
  | .i8 b => toString (if b ≥ 128 then (b : Int) - 256 else (b : Int))
  | .str s => hexOf s

def parseKvs : List String → Option (List (Sigproc.Bytes × Sigproc.Val))
  | [] => some []
  | k :: f :: v :: rest => do
    let k ← unhex k; let v ← parseVal f v; let r ← parseKvs rest; pure ((k, v) :: r)
  | _ => none

def showKvs (kvs : List (Sigproc.Bytes × Sigproc.Val)) : String :=
  " ".intercalate (kvs.map (fun (k, v) => s!"{hexOf k} {fmtName v.fmt} {showVal v}"))

/-! the translated codec (`Generated.SigprocCodec`, re-translated from `io/sigproc.py` on every run) is evaluated
on the same request; its outcome is appended as `| gen ok same`, `| gen ok diff` (payload differs from the hand
model's) or `| gen err <exception>` -/
def pyOf : Sigproc.Val → CodecPrims.PyVal
  | .u32 n => .int n
  | .f64 bs => .dbl bs
  | .i8 b => .int (if b < 128 then (b : Int) else (b : Int) - 256)
  | .str s => .str s

def genDict (kvs : List (Sigproc.Bytes × Sigproc.Val)) : CodecPrims.Dict := kvs.map (fun kv => (kv.1, pyOf kv.2))

def genTag {α : Type} (r : Except String α) (same : α → Bool) : String :=
  match r with
  | .ok a => if same a then " | gen ok same" else " | gen ok diff"
  | .error e => s!" | gen err {e}"

def stepC05 (ts : List String) : String :=
  match ts with
  | "enc" :: rest =>
    match parseKvs rest with
    | some kvs =>
      let hand := Sigproc.encodeHeader kvs
      s!"ok {hexOf hand}" ++ genTag (Generated.SigprocCodec.encode_header (genDict kvs)) (fun b => b == hand)
    | none => "bad-op"
  | ["parse", h] =>
    match unhex h with
    | none => "bad-op"
    | some bs =>
      let gen := Generated.SigprocCodec.parse_header bs
      match Sigproc.parseHeader bs with
      | .ok (kvs, n) =>
        s!"ok {n} {kvs.length} {showKvs kvs}".trimAsciiEnd.toString ++
          genTag gen (fun d => (d.filter (fun kv => CodecPrims.isKey kv.1)) == genDict kvs
                               && d.lookup (CodecPrims.ascii "hdrlen") == some (.int n))
      | .error e => s!"err {e.name}" ++ genTag gen (fun _ => false)
  | ["edit", file, key, t, v] =>
    match unhex file, unhex key with
    | some file, some key =>
      let ev : Option Sigproc.EditVal :=
        if t == "i" then v.toInt?.map .int else if t == "d" then (unhex v).map .flt
        else if t == "s" then (unhex v).map .str else none
      match ev with
      | none => "bad-op"
      | some ev =>
        let pv : CodecPrims.PyVal := match ev with | .int z => .int z | .flt bs => .dbl bs | .str s => .str s
        let gen := Generated.SigprocCodec.edit_header file key pv
        match Sigproc.editHeader file key ev with
        | .ok f => s!"ok {hexOf f}" ++ genTag gen (fun g => g == f)
        | .error e => s!"err {e.name}" ++ genTag gen (fun _ => false)
    | _, _ => "bad-op"
  | ["frame", f] =>
    let fr : Option Sigproc.Frame := if f == "topocentric" then some .topocentric
      else if f == "barycentric" then some .barycentric else if f == "pulsarcentric" then some .pulsarcentric else none
    match fr with
    | none => "bad-op"
    | some fr =>
      let (p, b) := Sigproc.flagsOf fr
      let back := match Sigproc.frameOf p b with
        | .topocentric => "topocentric" | .barycentric => "barycentric" | .pulsarcentric => "pulsarcentric"
      let gf := Generated.SigprocCodec.flagsOfFrame f
      let gback := Generated.SigprocCodec.frameOfFlags gf.1 gf.2
      s!"ok {p} {b} {back}" ++ (if gf == ((p : Int), (b : Int)) && gback == back then " | gen ok same" else " | gen ok diff")
  | ["ids", tel, mach] =>
    match unhex tel, unhex mach with
    | some t, some m =>
      let tn := String.ofList (t.map Char.ofNat)
      let mn := String.ofList (m.map Char.ofNat)
      let ti := Sigproc.telescopeId tn
      let mi := Sigproc.machineId mn
      s!"ok {ti} {mi} {hexOf (Sigproc.ascii (Sigproc.telescopeName ti))} {hexOf (Sigproc.ascii (Sigproc.machineName mi))}"
    | _, _ => "bad-op"
  | ["radec", neg, d, m, sn, sd] =>
    match d.toNat?, m.toNat?, sn.toInt?, sd.toNat? with
    | some d, some m, some sn, some sd =>
      if sd = 0 then "bad-op" else
      let v := Sigproc.packRadec (neg == "1") d m (mkRat sn sd)
      let (ng, d', m', s') := Sigproc.parseRadec v
      let g := (Generated.SigprocCodec.parse_radec v v)
      let same := g.2 == (ng, (d' : Int), (m' : Int), s') && (ng || g.1 == ((d' : Int), (m' : Int), s'))
      s!"ok {showRat v} {if ng then 1 else 0} {d'} {m'} {showRat s'}" ++ (if same then " | gen ok same" else " | gen ok diff")
    | _, _, _, _ => "bad-op"
  | _ => "bad-op"

def dtypeOf (s : String) : Option Samples.DType :=
  if s == "uint8" then some .uint8 else if s == "uint16" then some .uint16 else if s == "int64" then some .int64
  else if s == "float32" then some .float32 else if s == "float64" then some .float64 else none

/-- split `xs` into consecutive parts of the given sizes (in samples of `c` values) -/
def splitParts (c : Nat) : List Nat → List Nat → List (List Nat)
  | [], _ => []
  | p :: ps, xs => xs.take (p * c) :: splitParts c ps (xs.drop (p * c))

/-- integer-valued sample → stored word (float32 bit pattern for 32-bit files) -/
def wordOf (d v : Nat) : Nat := if d = 32 then (Float32.ofNat v).toBits.toNat else v

def stepC04 (ts : List String) : String :=
  match ts with
  | "cwrite" :: d :: dt :: c :: rest =>
    match d.toNat?, dtypeOf dt, c.toNat?, takeCounted rest with
    | some d, some dt, some c, some (parts, rest2) =>
      match takeCounted rest2 with
      | some (vals, []) =>
        let ws := vals.map (wordOf d)
        (match Samples.cwriteAll d dt (splitParts c parts ws) with
         | .ok bs => s!"ok {hexOf bs}"
         | .error e => s!"err {e.name}")
      | _ => "bad-op"
    | _, _, _, _ => "bad-op"
  | "cwritew" :: d :: dt :: c :: rest =>      -- values are already stored words (float32 bit patterns)
    match d.toNat?, dtypeOf dt, c.toNat?, takeCounted rest with
    | some d, some dt, some c, some (parts, rest2) =>
      match takeCounted rest2 with
      | some (ws, []) =>
        (match Samples.cwriteAll d dt (splitParts c parts ws) with
         | .ok bs => s!"ok {hexOf bs}"
         | .error e => s!"err {e.name}")
      | _ => "bad-op"
    | _, _, _, _ => "bad-op"
  | ["readfil", h] =>
    match unhex h with
    | none => "bad-op"
    | some f =>
      match Samples.readFil f with
      | .ok (nb, nc, ns, vs) => s!"ok {nb} {nc} {ns} {vs.length} {showNats vs}".trimAsciiEnd.toString
      | .error e => s!"err {e.name}"
  | _ => "bad-op"

def showInts (xs : List Int) : String := " ".intercalate (xs.map toString)

def showExceptI (r : Except Err (List Int)) : String :=
  match r with
  | .ok xs => s!"ok {xs.length} {showInts xs}".trimAsciiEnd.toString
  | .error e => s!"err {e.name}"

/-- `C06 op g s n N C ichan d_0..d_{C-1} x…` -/
def stepC06 (ts : List String) : String :=
  match ts with
  | op :: g :: s :: n :: N :: C :: ich :: rest =>
    match g.toNat?, s.toNat?, n.toNat?, N.toNat?, C.toNat?, ich.toNat? with
    | some g, some s, some n, some N, some C, some ich =>
      match natList? (rest.take C), intList? (rest.drop C) with
      | some delays, some flat =>
        if op == "collapse" then showExceptI (Reduce.collapse flat C g s n N)
        else if op == "read_chan" then showExceptI (Reduce.readChan flat C g s n N ich)
        else if op == "dedisperse" then showExceptI (Reduce.dedisperse flat C delays g s n N)
        else if op == "bandpass" then
          (match Reduce.bandpass flat C g s n N with
           | .ok (cnt, sums) => s!"ok {cnt} {sums.length} {showInts sums}"
           | .error e => s!"err {e.name}")
        else "bad-op"
      | _, _ => "bad-op"
    | _, _, _, _, _, _ => "bad-op"
  | _ => "bad-op"

def showRows (r : Except Err (List (List Int))) : String :=
  match r with
  | .ok rows => s!"ok {rows.length} {showInts rows.flatten}".trimAsciiEnd.toString
  | .error e => s!"err {e.name}"

/-- `C07 op g s n N C p1 p2 p3 <C aux values> x…`  (aux = delays or mask bits) -/
def stepC07 (ts : List String) : String :=
  match ts with
  | op :: g :: s :: n :: N :: C :: p1 :: p2 :: p3 :: rest =>
    match g.toNat?, s.toNat?, n.toNat?, N.toNat?, C.toNat?, p1.toInt?, p2.toNat?, p3.toNat? with
    | some g, some s, some n, some N, some C, some p1, some p2, some p3 =>
      match natList? (rest.take C), intList? (rest.drop C) with
      | some aux, some flat =>
        if op == "invert" then showRows (Transform.invertFreq flat C g s n N)
        else if op == "mask" then showRows (Transform.maskChannels (aux.map (· != 0)) p1 flat C g s n N)
        else if op == "samps" then showRows (Transform.extractSamps flat C g s n N)
        else if op == "chan" then showRows (Transform.extractChan p2 flat C g s n N)
        else if op == "band" then showRows (Transform.extractBand p2 p3 flat C g s n N)
        else if op == "downsample" then showRows (Transform.downsample flat C p2 p3 g s n N)
        else if op == "subband" then showRows (Transform.subband flat C aux p2 g s n N)
        else if op == "bandstarts" then s!"ok {showNats (Transform.bandStarts g s n)}"
        else if op == "zerodm" then
          (match Reduce.bandpass flat C g s n N, Transform.extractSamps flat C g s n N with
           | .ok (cnt, sums), .ok rows =>
             let bp : List Rat := sums.map (fun (x : Int) => ((x : Int) : Rat) / ((cnt : Nat) : Rat))
             if bp.sum = 0 then "err ZeroBandpass" else
             s!"ok {rows.length} " ++ " ".intercalate ((rows.flatMap (Transform.zerodmRow bp)).map showRat)
           | .error e, _ => s!"err {e.name}"
           | _, .error e => s!"err {e.name}")
        else "bad-op"
      | _, _ => "bad-op"
    | _, _, _, _, _, _, _, _ => "bad-op"
  | _ => "bad-op"

def rat? (s : String) : Option Rat :=
  match s.splitOn "/" with
  | [n] => n.toInt?.map (fun z => (z : Rat))
  | [n, d] => do let n ← n.toInt?; let d ← d.toNat?; if d = 0 then none else pure (mkRat n d)
  | _ => none

def parseParams : List String → Option (List (String × Rat))
  | [] => some []
  | k :: v :: rest => do let v ← rat? v; let r ← parseParams rest; pure ((k, v) :: r)
  | _ => none

/-- `C08 site <name> fch1 foff tsamp tstart dm nchans nsamples nbits [param value]…` (rationals `p/q`) -/
def stepC08 (ts : List String) : String :=
  match ts with
  | "site" :: name :: a :: b :: c :: d :: e :: f :: g :: h :: rest =>
    match rat? a, rat? b, rat? c, rat? d, rat? e, rat? f, rat? g, rat? h, parseParams rest with
    | some a, some b, some c, some d, some e, some f, some g, some h, some ps =>
      match Generated.HeaderUpdates.applySite name ⟨a, b, c, d, e, f, g, h⟩ ps with
      | some o => s!"ok {showRat o.fch1} {showRat o.foff} {showRat o.tsamp} {showRat o.tstart} {showRat o.dm} {showRat o.nchans} {showRat o.nsamples} {showRat o.nbits}"
      | none => "err UnknownSite"
    | _, _, _, _, _, _, _, _, _ => "bad-op"
  | ["dropped"] =>
    "ok " ++ " ".intercalate (Generated.HeaderUpdates.allDropped.map (fun (n, l) => s!"{n}:{l.length}"))
  | _ => "bad-op"

/-- split a flat list into `r` rows of `n` -/
def toRows (n : Nat) : Nat → List Int → List (List Int)
  | 0, _ => []
  | r + 1, xs => xs.take n :: toRows n r (xs.drop n)

def showRowsI (rows : List (List Int)) : String :=
  s!"ok {rows.length} {(rows.getD 0 []).length} {showInts rows.flatten}".trimAsciiEnd.toString

def showRowsE (r : Except Err (List (List Int))) : String :=
  match r with | .ok rows => showRowsI rows | .error e => s!"err {e.name}"

/-- `C09 op C n ndm start nsamps <ndm*C delays> <C*n data>` -/
def stepC09 (ts : List String) : String :=
  match ts with
  | ["delay", dm, f, fref, tsamp] =>
    match rat? dm, rat? f, rat? fref, rat? tsamp with
    | some dm, some f, some fref, some tsamp => s!"ok {showRat (Dedisp.delayQ dm f fref tsamp)}"
    | _, _, _, _ => "bad-op"
  | op :: C :: n :: ndm :: st :: ns :: rest =>
    match C.toNat?, n.toNat?, ndm.toNat?, st.toInt?, ns.toInt? with
    | some C, some n, some ndm, some st, some ns =>
      match intList? (rest.take (ndm * C)), intList? (rest.drop (ndm * C)) with
      | some dl, some flat =>
        if flat.length ≠ C * n then "bad-op" else
        let arr := toRows n C flat
        let table := toRows C ndm dl
        let d0 := table.getD 0 []
        if op == "roll" then showRowsI (Dedisp.blockDedisperse arr d0)
        else if op == "valid" then showRowsE (Dedisp.blockDedisperseValid arr d0)
        else if op == "inverse" then showRowsI (Dedisp.blockDedisperse (Dedisp.blockDedisperse arr d0) (d0.map (fun d => -d)))
        else if op == "dmt" then showRowsI (Dedisp.dmtTransform arr table)
        else if op == "dmtvalid" then showRowsE (Dedisp.dmtTransformValid arr table)
        else if op == "readdedisp" then showRowsE (Dedisp.readDedispBlock arr n d0 st ns)
        else "bad-op"
      | _, _ => "bad-op"
    | _, _, _, _, _ => "bad-op"
  | _ => "bad-op"

/-- `C11 fold g N C nbins nints nb <C delays> <C sbs> <nf pbs> <nf sis> <N*C data>`, nf = N - maxdelay -/
def stepC11 (ts : List String) : String :=
  match ts with
  | "fold" :: g :: N :: C :: nbins :: nints :: nb :: rest =>
    match g.toNat?, N.toNat?, C.toNat?, nbins.toNat?, nints.toNat?, nb.toNat? with
    | some g, some N, some C, some nbins, some nints, some nb =>
      match natList? (rest.take C), natList? ((rest.drop C).take C) with
      | some delays, some sbs =>
        let md := Reduce.maxDelay delays
        let nf := N - md
        let r2 := rest.drop (2 * C)
        match natList? (r2.take nf), natList? ((r2.drop nf).take nf), intList? (r2.drop (2 * nf)) with
        | some pb, some si, some flat =>
          if flat.length ≠ N * C then "bad-op" else
          (match Fold.fold flat C delays g 0 N N nbins nints nb pb si sbs with
           | .ok (sums, cnts) => s!"ok {sums.length} {showInts sums} {showInts cnts}"
           | .error e => s!"err {e.name}")
        | _, _, _ => "bad-op"
      | _, _ => "bad-op"
    | _, _, _, _, _, _ => "bad-op"
  | _ => "bad-op"

/-- `C17 hist ni nb nbin nops {d <nb drifts> | p <ni drifts>}… <ni*nb*nbin data>` → cube after each op, `;`-separated -/
def parseC17Ops (ni nb : Nat) : Nat → List String → Option (List FoldedCube.Op × List String)
  | 0, ts => some ([], ts)
  | k + 1, "d" :: rest => do
    let d ← intList? (rest.take nb); let (r, t) ← parseC17Ops ni nb k (rest.drop nb); pure (.dm d :: r, t)
  | k + 1, "p" :: rest => do
    let d ← intList? (rest.take ni); let (r, t) ← parseC17Ops ni nb k (rest.drop ni); pure (.period d :: r, t)
  | _, _ => none

def stepC17 (ts : List String) : String :=
  match ts with
  | "hist" :: ni :: nb :: nbin :: nops :: rest =>
    match ni.toNat?, nb.toNat?, nbin.toNat?, nops.toNat? with
    | some ni, some nb, some nbin, some nops =>
      match parseC17Ops ni nb nops rest with
      | some (ops, dataTs) =>
        match intList? dataTs with
        | some flat =>
          if flat.length ≠ ni * nb * nbin then "bad-op" else
          let cube := (toRows (nb * nbin) ni flat).map (toRows nbin nb)
          " ; ".intercalate ((FoldedCube.trace (FoldedCube.init cube) ops).map
            (fun st => showInts (st.data.flatten.flatten)))
        | none => "bad-op"
      | none => "bad-op"
    | _, _, _, _ => "bad-op"
  | _ => "bad-op"

/-- `C12 conv|corr N n1 a… b…` / `C12 lens N nsamples` -/
def stepC12 (ts : List String) : String :=
  match ts with
  | op :: N :: n1 :: rest =>
    match N.toNat?, n1.toNat?, intList? rest with
    | some N, some n1, some xs =>
      let a := xs.take n1
      let b := xs.drop n1
      if op == "conv" then s!"ok {showInts (Conv.fftconvolve N a b)} | {showInts (Conv.lconv a b)}"
      else if op == "corr" then s!"ok {showInts (Conv.correlate N a b)}"
      else if op == "lens" then s!"ok {Conv.rfftBins N} {Conv.irfftDefaultLen (Conv.rfftBins N)} {Conv.ifftLen (Conv.rfftBins N) n1}"
      else "bad-op"
    | _, _, _ => "bad-op"
  | _ => "bad-op"

def ratList? (ts : List String) : Option (List Rat) := ts.mapM rat?

/-- `C13 resp n klen ref mu sigma <n data> <klen kernel>` → responses and correlations;
    `C13 peak rows n <rows*n values>` → itemp peak -/
def stepC13 (ts : List String) : String :=
  match ts with
  | "resp" :: n :: klen :: ref :: mu :: sg :: rest =>
    match n.toNat?, klen.toNat?, ref.toNat?, rat? mu, rat? sg, ratList? rest with
    | some n, some klen, some ref, some mu, some sg, some xs =>
      if xs.length ≠ n + klen then "bad-op" else
      let data := xs.take n
      let kern := xs.drop n
      let r := MatchedFilter.response data kern ref mu sg
      let c := (List.range n).map (MatchedFilter.correlationAt data kern ref mu sg)
      s!"ok {" ".intercalate (r.map showRat)} | {" ".intercalate (c.map showRat)}"
    | _, _, _, _, _, _ => "bad-op"
  | "peak" :: rows :: n :: rest =>
    match rows.toNat?, n.toNat?, ratList? rest with
    | some rows, some n, some xs =>
      if xs.length ≠ rows * n then "bad-op" else
      let convs := (List.range rows).map (fun i => (xs.drop (i * n)).take n)
      let (it, pk) := MatchedFilter.peakOf convs
      s!"ok {it} {pk}"
    | _, _, _ => "bad-op"
  | _ => "bad-op"

def showRats (xs : List Rat) : String := " ".intercalate (xs.map showRat)

def stepC14 (ts : List String) : String :=
  match ts with
  | "runmean" :: n :: w :: rest =>
    match n.toNat?, w.toNat?, intList? rest with
    | some _, some w, some xs => s!"ok {showRats (Filters.runningMean (xs.map (fun (z : Int) => (z : Rat))) w)}"
    | _, _, _ => "bad-op"
  | ["runidx", n, w] =>
    match n.toNat?, w.toNat? with
    | some n, some w =>
      if Filters.runningLen n w ≠ n then s!"err length {Filters.runningLen n w}" else
      s!"ok {showNats ((List.range n).flatMap (Filters.windowIdx n w))}"
    | _, _ => "bad-op"
  | "down1d" :: n :: f :: rest =>
    match n.toNat?, f.toNat?, intList? rest with
    | some _, some f, some xs => s!"ok {showRats (Filters.downsample1d (xs.map (fun (z : Int) => (z : Rat))) f)}"
    | _, _, _ => "bad-op"
  | "down2d" :: d1 :: d2 :: f1 :: f2 :: rest =>
    match d1.toNat?, d2.toNat?, f1.toNat?, f2.toNat?, intList? rest with
    | some d1, some d2, some f1, some f2, some xs =>
      let x := xs.map (fun (z : Int) => (z : Rat))
      let a := (Filters.downsample2d x d1 d2 f1 f2).flatten
      let b := Filters.downsample2dFlat x d1 d2 f1 f2
      if a ≠ b then "err flat-differs-from-2d" else s!"ok {showRats a}"
    | _, _, _, _, _ => "bad-op"
  | "detrend" :: n :: rest =>
    match n.toNat?, intList? rest with
    | some _, some xs => s!"ok {showRats (Filters.detrend (xs.map (fun (z : Int) => (z : Rat))))}"
    | _, _ => "bad-op"
  | _ => "bad-op"

/-- `C15 est <method> <c1> <c2> rows cols axis(n|0|1) values…` (rationals) → per-lane estimates -/
def stepC15 (ts : List String) : String :=
  match ts with
  | "est" :: m :: c1 :: c2 :: rows :: cols :: ax :: rest =>
    match rat? c1, rat? c2, rows.toNat?, cols.toNat?, ratList? rest with
    | some c1, some c2, some rows, some cols, some xs =>
      if xs.length ≠ rows * cols then "bad-op" else
      let mat := (List.range rows).map (fun i => (xs.drop (i * cols)).take cols)
      let axis : Option Nat := if ax == "n" then none else ax.toNat?
      let est : Option (List Rat → Rat) :=
        if m == "median" then some Robust.median
        else if m == "mean" then some Robust.mean
        else if m == "iqr" then some (Robust.iqr c1)
        else if m == "mad" then some (Robust.mad c1 c2)
        else if m == "qn" then some (Robust.qn c1)
        else if m == "sn" then some (Robust.sn c1)
        else if m == "gapper" then some (Robust.gapper c1)
        else if m == "var" then some Robust.variance
        else none
      -- the same estimator as translated from `core/stats.py` on this run (normalising constants baked in from the
      -- source literals; irrational ones taken from the request), applied through the translated `apply_along_axes`
      let gen : Option (List Rat → Rat) :=
        if m == "median" then some Np.median
        else if m == "mean" then some Np.mean
        else if m == "iqr" then some Generated.StatsLane._scale_iqr
        else if m == "mad" then some (Generated.StatsLane._scale_mad c2)
        else if m == "qn" then some Generated.StatsLane._scale_qn_1d
        else if m == "sn" then some Generated.StatsLane._scale_sn_1d
        else if m == "gapper" then some (Generated.StatsLane._scale_gapper_1d c1)
        else none
      match est with
      | some e =>
        let hand := Robust.alongAxis e mat axis
        let tag := match gen with
          | some g => if Generated.StatsLane.alongAxes g mat axis == hand then " | gen ok same" else " | gen ok diff"
          | none => ""
        s!"ok {showRats hand}" ++ tag
      | none => "bad-op"
    | _, _, _, _, _ => "bad-op"
  | "dmad" :: c2 :: rows :: cols :: ax :: rest =>
    -- `_scale_doublemad` (translated source only: there is no hand model of it) per lane, scattered back to the
    -- layout of the input, row-major
    match rat? c2, rows.toNat?, cols.toNat?, ratList? rest with
    | some c2, some rows, some cols, some xs =>
      if xs.length ≠ rows * cols then "bad-op" else
      let mat := (List.range rows).map (fun i => (xs.drop (i * cols)).take cols)
      let f := Generated.StatsLane._scale_doublemad c2
      if ax == "n" then s!"ok {showRats (f xs)}"
      else if ax == "1" then s!"ok {showRats (mat.flatMap f)}"
      else
        let colsOut := (Np.lanesAxis0 mat).map f
        s!"ok {showRats ((List.range rows).flatMap (fun i => colsOut.map (fun c => c.getD i 0)))}"
    | _, _, _, _ => "bad-op"
  | "z" :: loc :: sc :: rest =>
    match rat? loc, rat? sc, ratList? rest with
    | some loc, some sc, some xs => s!"ok {showRats (Robust.zscore loc sc xs)}"
    | _, _, _ => "bad-op"
  | _ => "bad-op"

def bits? (n : Nat) (ts : List String) : Option (Rfi.Mask × List String) :=
  if ts.length < n then none else some ((ts.take n).map (· == "1"), ts.drop n)

def ratPairs : List Rat → List (Rat × Rat)
  | a :: b :: rest => (a, b) :: ratPairs rest
  | _ => []

/-- `C16 trace C <C freqs> nops { m nr <2nr bounds> | s <3C bits> | c <C bits> }…` → chan/user/stats/custom after each op -/
def parseC16Ops (C : Nat) (freqs : List Rat) : Nat → List String → Option (List Rfi.Op)
  | 0, [] => some []
  | 0, _ => none
  | k + 1, "m" :: nr :: rest => do
    let nr ← nr.toNat?
    let bs ← ratList? (rest.take (2 * nr))
    let r ← parseC16Ops C freqs k (rest.drop (2 * nr))
    pure (.mask freqs (ratPairs bs) :: r)
  | k + 1, "s" :: rest => do
    let (a, r1) ← bits? C rest; let (b, r2) ← bits? C r1; let (c, r3) ← bits? C r2
    let r ← parseC16Ops C freqs k r3
    pure (.method a b c :: r)
  | k + 1, "c" :: rest => do
    let (a, r1) ← bits? C rest
    let r ← parseC16Ops C freqs k r1
    pure (.funcn a :: r)
  | _, _ => none

def showMask (m : Rfi.Mask) : String := String.ofList (m.map (fun b => if b then '1' else '0'))

def stepC16 (ts : List String) : String :=
  match ts with
  | "trace" :: C :: rest =>
    match C.toNat? with
    | none => "bad-op"
    | some C =>
      match ratList? (rest.take C), (rest.drop C) with
      | some freqs, nops :: r2 =>
        match nops.toNat? with
        | none => "bad-op"
        | some nops =>
          match parseC16Ops C freqs nops r2 with
          | some ops => " ; ".intercalate ((Rfi.trace (Rfi.init C) ops).map
              (fun st => s!"{showMask st.chan} {showMask st.user} {showMask st.stats} {showMask st.custom}"))
          | none => "bad-op"
      | _, _ => "bad-op"
  | _ => "bad-op"

/-- `C20 prefixes <filehex> <hdrlen>`: check every truncation (all cuts for small files, a stride otherwise) -/
def stepC20 (ts : List String) : String :=
  match ts with
  | ["prefixes", fh, hl] =>
    match unhex fh, hl.toNat? with
    | some file, some hl =>
      let n := file.length
      let stride := if n - hl ≤ 160 then 1 else (n - hl) / 80
      let cuts := ((List.range ((n - hl) / stride + 1)).map (fun i => hl + i * stride)) ++ [n]
      match cuts.find? (fun L => !(Writer.truncationOk file hl L)) with
      | none => s!"ok {cuts.length}"
      | some L => s!"fail cut {L}"
    | _, _ => "bad-op"
  | _ => "bad-op"

/-- rows are their global index: `C18 rb nsblk nsub s n` / `C18 plan nsblk nsub g s n k` -/
def stepC18 (ts : List String) : String :=
  let mk (nsblk nsub : Nat) : List (List Nat) := (List.range nsub).map (fun i => List.range' (i * nsblk) nsblk)
  match ts with
  | ["rb", nsblk, nsub, s, n] =>
    match nsblk.toNat?, nsub.toNat?, s.toInt?, n.toInt? with
    | some nsblk, some nsub, some s, some n =>
      (match Pfits.readBlock (mk nsblk nsub) nsblk (nsblk * nsub) s n with
       | .ok rows => s!"ok {rows.length} {showNats rows}".trimAsciiEnd.toString
       | .error e => s!"err {e.name}")
    | _, _, _, _ => "bad-op"
  | ["plan", nsblk, nsub, g, s, n, k] =>
    match nsblk.toNat?, nsub.toNat?, g.toNat?, s.toNat?, n.toNat?, k.toNat? with
    | some nsblk, some nsub, some g, some s, some n, some k =>
      (match Pfits.readPlan (mk nsblk nsub) nsblk g s n k with
       | .ok bs => "ok " ++ " ; ".intercalate (bs.map (fun (len, ii, rows) => s!"{len} {ii} {showNats rows}"))
       | .error e => s!"err {e.name}")
    | _, _, _, _, _, _ => "bad-op"
  | _ => "bad-op"


/-! ### K — the GENERATED loop kernels (`Generated/LoopKernels.lean`, `Generated/MomentKernels.lean`) run on
    concrete arrays: `K <kernel> <int params…> | <array> | <array> …`; answers the first `nout` cells -/

def splitBar (ts : List String) : List (List String) :=
  ts.foldr (fun t acc => if t == "|" then [] :: acc else match acc with
    | [] => [[t]]
    | g :: gs => (t :: g) :: gs) [[]]

def arrQ (xs : List Rat) : Nat → Rat := let a := xs.toArray; fun k => a.getD k 0
def arrN (xs : List Nat) : Nat → Nat := let a := xs.toArray; fun k => a.getD k 0
def cells (n : Nat) (f : Nat → Rat) : String := s!"ok {showRats ((List.range n).map f)}"

open SppModel.Generated.LoopKernels in
def stepK (ts : List String) : String :=
  match ts with
  | name :: rest =>
    match splitBar rest with
    | ps :: arrs =>
      match natList? ps, arrs.mapM ratList? with
      | some ps, some arrs =>
        let nat (a : List Rat) : List Nat := a.map (fun q => q.num.toNat)
        match name, ps, arrs with
        | "extract_tim", [C, T, idx, nout], [x, o] => cells nout (extract_tim_exec nout (arrQ x) (arrQ o) C T idx)
        | "extract_bpass", [C, T, nout], [x, o] => cells nout (extract_bpass_exec nout (arrQ x) (arrQ o) C T)
        | "mask_channels", [C, T, nout], [x, m, v] =>
            cells nout (mask_channels_exec nout (arrQ x) (fun c => m.getD c 0 != 0) (v.getD 0 0) C T)
        | "dedisperse", [md, C, T, idx, nout], [x, o, d] =>
            cells nout (dedisperse_exec nout (arrQ x) (arrQ o) (arrN (nat d)) md C T idx)
        | "invert_freq", [C, T, nout], [x] => cells nout (invert_freq_exec nout (arrQ x) C T)
        | "subband", [md, C, S, T, nout], [x, o, d, c2s] =>
            cells nout (subband_exec nout (arrQ x) (arrQ o) (arrN (nat d)) (arrN (nat c2s)) md C S T)
        | "remove_zerodm", [C, T, nout], [x, o, bp, w] =>
            cells nout (remove_zerodm_exec nout (arrQ x) (arrQ o) (arrQ bp) (arrQ w) C T)
        | "downsample_1d", [f, len, nout], [x] => cells nout (downsample_1d_mean_exec nout (arrQ x) f len)
        | "downsample_2d", [f1, f2, d1, d2, nout], [x] => cells nout (downsample_2d_mean_flat_exec nout (arrQ x) f1 f2 d1 d2)
        | "fold", [md, total, n, C, nbins, nints, nsubs, idx, nout], [x, fa, ca, d, [tsamp, period, accel]] =>
            let r := fold_exec nout (arrQ x) (arrQ fa) (arrQ ca) (arrN (nat d)) md tsamp period accel total n C nbins nints nsubs idx
            s!"ok {showRats ((List.range nout).map r.1)} | {showRats ((List.range nout).map r.2)}"
        | _, _, _ => "bad-op"
      | _, _ => "bad-op"
    | _ => "bad-op"
  | _ => "bad-op"

/-! ### KB — the GENERATED 2-D block kernels (`Generated/BlockKernels.lean`):
    `KB <kernel> rows cols nsh | <block, row-major> | <shift vector or shift table, row-major>`;
    answers `ok r c <cells>` (the first `r × c` cells; `r c` given as the 4th/5th ints) or `none` -/

def arr2Q (cols : Nat) (xs : List Rat) : Nat → Nat → Rat := let a := xs.toArray; fun r k => if k < cols then a.getD (r * cols + k) 0 else 0
def arr2Z (cols : Nat) (xs : List Int) : Nat → Nat → Int := let a := xs.toArray; fun r k => if k < cols then a.getD (r * cols + k) 0 else 0
def arrZ (xs : List Int) : Nat → Int := let a := xs.toArray; fun k => a.getD k 0

def cells2 (r c : Nat) (o : Option (Nat → Nat → Rat)) : String :=
  match o with
  | none => "none"
  | some f => s!"ok {showRats ((List.range r).flatMap (fun i => (List.range c).map (f i)))}"

open SppModel.Generated.BlockKernels in
def stepKB (ts : List String) : String :=
  match ts with
  | name :: rest =>
    match splitBar rest with
    | [ps, x, sh] =>
      match natList? ps, ratList? x, sh.mapM String.toInt? with
      | some [rows, cols, nsh, outr, outc], some x, some sh =>
        let memo := max (max rows cols) (max outr outc)
        (match name with
         | "roll_block" => cells2 outr outc (roll_block_exec memo (arr2Q cols x) rows cols (arrZ sh) nsh)
         | "roll_block_valid" => cells2 outr outc (roll_block_valid_exec memo (arr2Q cols x) rows cols (arrZ sh) nsh)
         | "dmt_block" => cells2 outr outc (dmt_block_exec memo (arr2Q cols x) rows cols (arr2Z rows sh) nsh rows)
         | "dmt_block_valid" => cells2 outr outc (dmt_block_valid_exec memo (arr2Q cols x) rows cols (arr2Z rows sh) nsh rows)
         | _ => "bad-op")
      | _, _, _ => "bad-op"
    | _ => "bad-op"
  | _ => "bad-op"

def step (line : String) : String :=
  match (line.trimAscii.toString.splitOn " ").filter (· ≠ "") with
  | "C03" :: rest => stepC03 rest
  | "C01" :: rest => stepC01 rest
  | "C02" :: rest => stepC02 rest
  | "C05" :: rest => stepC05 rest
  | "C06" :: rest => stepC06 rest
  | "C07" :: rest => stepC07 rest
  | "C08" :: rest => stepC08 rest
  | "C09" :: rest => stepC09 rest
  | "C11" :: rest => stepC11 rest
  | "C17" :: rest => stepC17 rest
  | "C12" :: rest => stepC12 rest
  | "C13" :: rest => stepC13 rest
  | "C14" :: rest => stepC14 rest
  | "C15" :: rest => stepC15 rest
  | "C16" :: rest => stepC16 rest
  | "C20" :: rest => stepC20 rest
  | "C18" :: rest => stepC18 rest
  | "C04" :: rest => stepC04 rest
  | "C10" :: rest => stepC10 rest
  | "K" :: rest => stepK rest
  | "KB" :: rest => stepKB rest
  | _ => "bad-op"

partial def loop (h : IO.FS.Stream) (out : IO.FS.Stream) : IO Unit := do
  let line ← h.getLine
  if line.isEmpty then return ()
  out.putStrLn (step line)
  loop h out

def main : IO Unit := do
  let out ← IO.getStdout
  loop (← IO.getStdin) out
  out.flush

import SppModel.Model.Basic
import SppModel.Model.Bits

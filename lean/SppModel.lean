import SppModel.Model.Basic
import SppModel.Model.Bits
import SppModel.Model.Plan
import SppModel.Model.Stream
import SppModel.Model.Moments
import SppModel.Model.SigprocHeader
import SppModel.Model.Samples
import SppModel.Model.Reduce
